#!/usr/bin/env python3
"""Confirms a seeded change delivered by a sub-agent and runs the checks against it.

usage: seedcheck.py <dir-with-deliverables> <ID> <A|B> [extra-check-ids...]

Steps (all in scratch worktrees of /repo under /tmp, removed afterwards):
  1. patch applies, library builds, the repository's own suite passes with it;
  2. the demonstration fails with the change and passes without it;
  3. the property's quick check (and any extra checks named) is run against the patched
     worktree (VERIF_REPO), exit code and signatures recorded;
  4. deliverables + a meta.json with what was run are stored in /verif/seeded/<ID>-<X>/.
"""
import json, os, re, shutil, subprocess, sys, tempfile

SUF = os.environ.get("SEED_SUFFIX", "")
ENV = dict(os.environ, GOFLAGS="-mod=mod", GOPROXY="off", GOSUMDB="off", GOTOOLCHAIN="local")


def sh(cmd, cwd=None, timeout=3000):
    r = subprocess.run(cmd, shell=True, cwd=cwd, env=ENV, capture_output=True, text=True, errors="replace", timeout=timeout)
    return r.returncode, r.stdout + r.stderr


def worktree():
    d = tempfile.mkdtemp(prefix="seedwt.", dir="/tmp")
    os.rmdir(d)
    rc, out = sh(f"git -C /repo worktree add -q --detach {d} HEAD")
    assert rc == 0, out
    return d


def drop(d):
    sh(f"git -C /repo worktree remove --force {d}")
    shutil.rmtree(d, ignore_errors=True)


def main():
    src, pid, x = sys.argv[1], sys.argv[2], sys.argv[3]
    extra = sys.argv[4:]
    patch = os.path.join(src, f"{x}.patch.diff")
    demo = os.path.join(src, f"{x}.demo_test.go")
    meta = json.load(open(os.path.join(src, f"{x}.meta.json")))
    demo_src = open(demo).read()
    pkgdir = "css" if re.search(r"^package css\b", demo_src, re.M) else "."
    demo_name = f"zz_demo_{pid}_{x}_test.go"
    tests = re.findall(r"^func (Test\w+)\(", demo_src, re.M)
    runpat = "^(" + "|".join(tests) + ")$"
    race = "-race " if ("-race" in json.dumps(meta)) else ""
    res = {"property": pid, "variant": x}

    w = worktree()
    try:
        rc, out = sh(f"git apply {patch}", cwd=w)
        res["patch_applies"] = rc == 0
        if rc != 0:
            res["error"] = out[-500:]
            print(json.dumps(res, indent=1)); return 2
        rc, out = sh("go build ./... && go test -vet=off -count=1 ./...", cwd=w)
        res["suite_passes_with_change"] = rc == 0
        shutil.copy(demo, os.path.join(w, pkgdir, demo_name))
        rc, out = sh(f"go test {race}-vet=off -count=1 -run '{runpat}' ./{pkgdir}", cwd=w, timeout=1200)
        res["demo_fails_with_change"] = rc != 0
        res["demo_output_with_change"] = out[-600:]
        os.remove(os.path.join(w, pkgdir, demo_name))
        # checks against the patched tree
        det = {}
        for chk in [pid] + extra:
            rc, out = sh(f"VERIF_REPO={w} VERIF_OUT=/tmp/vmon-scratch-out/{pid}-{x}{SUF} ./run.sh {chk} quick", cwd="/verif", timeout=3000)
            sigs = sorted(set(re.findall(r"signature=(\S+)", out)))
            verdict = re.findall(r"verdict=(\w+)", out)
            det[chk] = {"exit": rc, "verdict": verdict[-1] if verdict else None, "signatures": sigs[:12], "inconclusive": re.findall(r"INCONCLUSIVE[^\n]*", out)[:3]}
        res["checks"] = det
    finally:
        drop(w)
    w = worktree()
    try:
        shutil.copy(demo, os.path.join(w, pkgdir, demo_name))
        rc, out = sh(f"go test {race}-vet=off -count=1 -run '{runpat}' ./{pkgdir}", cwd=w, timeout=1200)
        res["demo_passes_without_change"] = rc == 0
        if rc != 0:
            res["demo_output_without_change"] = out[-600:]
    finally:
        drop(w)
    ok = res["suite_passes_with_change"] and res["demo_fails_with_change"] and res["demo_passes_without_change"]
    res["confirmed"] = ok
    res["detected_by_own_check"] = res["checks"][pid]["exit"] == 1
    if ok:
        dst = f"/verif/seeded/{pid}-{x}{SUF}"
        os.makedirs(dst, exist_ok=True)
        shutil.copy(patch, os.path.join(dst, "patch.diff"))
        shutil.copy(demo, os.path.join(dst, "demo_test.go"))
        m = {"breaks_property": pid, "summary": meta.get("summary"), "needs_to_manifest": meta.get("needs_to_manifest"),
             "author": "independent sub-agent given only the property text and a scratch worktree",
             "confirmed_by_me": {"suite_passes_with_change": True, "demo_fails_with_change": True, "demo_passes_without_change": True,
                                 "how": f"scratch worktree of /repo HEAD; git apply patch.diff; go test -vet=off -count=1 ./...; go test {race}-run '{runpat}' with and without the patch"},
             "checks_run_against_it": res["checks"]}
        json.dump(m, open(os.path.join(dst, "meta.json"), "w"), indent=1)
    print(json.dumps(res, indent=1))
    return 0 if ok else 3


if __name__ == "__main__":
    sys.exit(main())
