#!/usr/bin/env python3
"""Regenerates the table of seeded changes in DESIGN.md 8.4 from seeded/*/meta.json (development aid)."""
import json, glob, re, os
p = '/verif/DESIGN.md'
s = open(p).read()
BAR = '\\|'
def key(d):
    m = re.match(r'(C\d+)-([AB])(\d*)', d)
    return (m.group(1), m.group(2), int(m.group(3) or 1))
dirs = sorted([os.path.basename(x) for x in glob.glob('/verif/seeded/C*')], key=key)
rows = []
for d in dirs:
    m = json.load(open(f'/verif/seeded/{d}/meta.json'))
    summ = re.sub(r'\s+', ' ', m['summary']).replace('|', BAR)
    if len(summ) > 200:
        summ = summ[:200] + '...'
    caught = []
    for k, v in m.get('checks_run_against_it', {}).items():
        if v.get('exit') == 1:
            sig = (v.get('signatures') or ['?'])[0]
            sig = sig.split(':', 1)[1] if ':' in sig else sig
            caught.append(k + ' (' + sig.replace('|', BAR) + ')')
    rows.append('| ' + d + ' | ' + summ + ' | ' + (', '.join(caught) if caught else 'MISSED') + ' |')
start = s.index('| seeded change | what it does |')
lines = s[start:].split('\n')
n = 0
while n < len(lines) and lines[n].startswith('|'):
    n += 1
s = s[:start] + '\n'.join(lines[:2] + rows) + '\n' + '\n'.join(lines[n:])
open(p, 'w').write(s)
print(len(rows), [r[:40] for r in rows if 'MISSED' in r])
