#!/usr/bin/env python3
"""Regenerates /verif/MANIFEST.json from the table below and validates it.
Properties whose monitor is not built yet are listed under not_applicable with
that reason (kept current by hand: move an id into DONE when its check is
registered)."""
import json, os, sys
HERE = os.path.dirname(os.path.abspath(__file__))

DONE = set(open(os.path.join(HERE, "harness", "DONE.txt")).read().split())

P = {
 "C01": ("exploration", "re-tokenise + re-parse (8 contexts) every output; shadow-policy allowlist oracle; tag-subsequence alignment",
         "Random policies x hostile/noisy/corpus-mutated documents plus bounded-exhaustive token strings; every tag, comment and doctype an x/net/html tokenizer or tree builder finds in the output is judged against a shadow model of the policy recorded from the builder calls. Exploration is the right level: the property quantifies over all byte strings and all policies, which only sampling plus bounded enumeration can approach at run time.", "4/C01",
         "x/net/html v0.26.0 tokenizer and ParseFragment stand in for 'an HTML5 parser'; the shadow model's semantics are written from README/doc comments."),
 "C02": ("exploration", "re-tokenise/re-parse outputs; attribute-justification oracle over the shadow rule set",
         "Every attribute of every start/self-closing tag in every output must be justified by a clause of the property (rule accepting the decoded value, data-*, style rules, forced attribute); bare tags must be allowed bare. Single-tag inputs give exact alignment, documents give existential alignment.", "4/C02",
         "value patterns are evaluated with Go's regexp on the decoded value; one-directional (over-stripping is C07)."),
 "C03": ("exploration", "enumerate all 17 (element,attribute) URL positions x hostile URL generator (obfuscations, URL soup, data URIs); WHATWG-style scheme extractor independent of net/url; custom checks and rewriter re-evaluated",
         "All fifteen URL positions are enumerated for every generated URL under many scheme allowlists / relative / rewriter settings; survivors are classified by a browser-style scheme extractor and the harness's own copy of custom checks.", "4/C03",
         "browser URL scheme extraction approximated per WHATWG URL (strip C0/space, remove TAB/LF/CR, scheme grammar)."),
 "C04": ("exploration", "independent UGC vocabulary table; Strict => no markup tokens; DOM in 8 contexts; conforming-document round trip",
         "Hostile generators, corpus mutants and exhaustive token strings against StrictPolicy/UGCPolicy; outputs re-parsed in eight container contexts and judged against a hand-transcribed table of the documented UGC vocabulary; conforming UGC documents must round-trip up to the predicted rel=nofollow.", "4/C04",
         "the vocabulary table is transcribed from policies.go/helpers.go comments."),
 "C05": ("exploration", "re-tokenise/re-parse outputs of policies that try to allow script/style; planted body markers",
         "Policies that name, pattern-match or un-skip script/style, against every syntactic form of those elements; no script/style element and no planted body marker may reach the output.", "4/C05",
         "'inside' a script/style element is what the tokenizer reports as its raw text."),
 "C06": ("exploration", "item-wise alignment of input and output token/character streams",
         "Decoded character data of input and output token streams must be equal item by item (a removed tag is nothing, or exactly one space with AddSpaceWhenStrippingTag); output tags must be a subsequence of input tags.", "4/C06",
         "x/net/html tokenizer defines 'the text an HTML tokenizer reads'."),
 "C07": ("exploration", "conforming-document generator from the shadow policy; byte equality up to exactly the rel/target additions the link options ask for; well-known CSS values under default handlers",
         "Documents generated from each policy's own vocabulary in canonical serialisation must come back byte for byte (managed attributes excepted); overlapping rules are exercised with values accepted by exactly one of them.", "4/C07",
         "canonical serialisation = what x/net/html Token.String emits."),
 "C08": ("exploration", "well-nested document generator with planted unique markers (text, whitespace-only, comments/PIs/CDATA) inside/outside skipped regions; metamorphic comparison with the skipped content cut out; deep and wide regions",
         "Markers planted inside disallowed skip-content elements must vanish, markers outside must survive, across nesting, modified skip sets and element-pattern policies.", "4/C08",
         "region membership is known from the generator's tree and the shadow skip set."),
 "C09": ("exploration", "stack-balance check over re-tokenised output when the input balances; exhaustive small trees",
         "Every well-nested input (generated trees, exhaustive small trees over a per-policy alphabet) must yield an output accepted by the same stack-balance checker.", "4/C09",
         "void elements are the 14 HTML void element names."),
 "C10": ("exploration", "independent CSS declaration reader + browser-style escape decoder over output style attributes",
         "Each declaration a browser-style reader finds in an output style attribute must have an allowlisted property and a decoded value accepted by a matcher of the shadow rule set; clean inputs must keep allowed declarations in order.", "4/C10",
         "browser CSS parsing approximated by CSS Syntax L3 declaration-list splitting and escape decoding."),
 "C11": ("exploration", "enumerated link-attribute product; rel token oracle on re-tokenised output",
         "All 32 link-option combinations x rel/target rule shapes x attribute orders and multiplicities x rel values containing look-alike tokens; required rel tokens / target are checked as a browser reads them.", "4/C11",
         "host-ness judged only where RFC 3986 and WHATWG agree."),
 "C12": ("exploration", "enumerated media/iframe attribute product incl. sandbox subsets; forced-attribute oracle",
         "crossorigin and sandbox outcomes are checked on every emitted media/iframe tag across supplied values and sandbox subsets (all 2^14 in thorough).", "4/C12",
         "tokens are split on ASCII whitespace."),
 "C13": ("exploration", "Go race detector + concurrent-vs-sequential equality on a 64-goroutine stress (never-used instances, cold starts, fresh processes whose first calls are concurrent, two policies at once); history independence against never-used equal policies",
         "Shared policies under 64 goroutines with a tiny input set, built with -race; policies that never sanitised anything are first used under contention; every concurrent result must equal the sequential one, repeated sequential calls must agree, and the baseline recomputed after the stress must be unchanged. A reflection fingerprint of the policy before/after is recorded as an observation.", "4/C13",
         "the race detector only sees executed interleavings; its shadow history is bounded."),
 "C14": ("exploration", "size ladders with deterministic allocation counts + CPU time under RLIMIT_CPU; recover()-monitored panic hunt",
         "Size-parameterised adversarial families per default CSS handler and per structural dimension, measured in allocations and CPU time in CPU-limited child processes; plus a panic hunt over the hostile generators through every entry point.", "4/C14",
         "'polynomial' is restated as no super-quartic growth on the driven ladders."),
 "C15": ("exploration", "entry-point differential under logged reader schedules, six reader kinds, both writer kinds, giant tokens, partly consumed readers; cmd binaries (stdin up to 17 MiB) vs library",
         "Four entry points, many reader schedules (every split position for short inputs), two writer kinds, and the freshly built cmd tools must all agree byte for byte.", "4/C15",
         "the harness carries its own transcription of the two cmd policies."),
 "C16": ("fault_enumeration", "fault-injecting io.Writer/io.Reader (four fault modes, sentinel error values, six reader kinds, flushable and unwritable *os.File destinations); every write index and every read offset enumerated",
         "For each driven (policy,input) every write index and every source offset is faulted (permanent, transient, short); error reporting, no-write-after-failure and clean-prefix are checked from the event log.", "4/C16",
         "exhaustive in the fault position for the driven pairs only."),
 "C17": ("exploration", "history differential: same rule set applied through permuted (rules, commuting switch-like calls, matcher calls in a chain) / re-cased / duplicated / overridden builder histories; instance independence incl. shipped constructors and the zero value; deterministic use-reconfigure-reuse histories (sanitise, change one setting, sanitise the same input) against a never-used policy",
         "Policies built from the same recorded rule set through different builder-call histories must sanitise probes identically; building or extending another instance must not change a policy's outputs or fingerprint.", "4/C17",
         "switch-like options keep their relative order per key."),
 "C18": ("exploration", "per-handler vocabulary discovery + hostile-fragment insertion at every position, in strings, comments and functional notations; malformed-value (unbalanced bracket / open string) oracle; ~4000 undocumented property names",
         "Each default CSS handler's accepted short values get every hostile fragment prepended, appended, inserted at every offset and substituted for every byte; any acceptance refutes. Unknown properties must reject everything.", "4/C18",
         "bounded-exhaustive over <=3-token base values from a ~400-token pool."),
 "C19": ("exploration", "bounded-exhaustive string enumeration + edit-distance-2 mutants (incl. Unicode look-alikes) + keyword dictionary and combinations vs hand-written recognisers",
         "Every string up to length L over each matcher's own characters plus HTML-significant ones, and all single/double edits of documented examples, compared with hand-written recognisers of the documented forms (exhaustive for the stated bound).", "4/C19",
         "recognisers are written from the doc comments; (?i) is Unicode simple folding."),
 "C20": ("exploration", "double-sanitise differential on hostile/conforming inputs for in-class policies; deterministic URL-normalisation and style-normalisation streams; one-giant-token size ladder (32 KiB-8 MiB, thorough 32 MiB) whose written form outgrows its source form",
         "Sanitize(Sanitize(x)) must equal Sanitize(x) for generated policies of the stated class, StrictPolicy and UGCPolicy (del/ins cite excluded).", "4/C20",
         "class membership is decided on the shadow rule set."),
}

checks, na = [], []
for pid in sorted(P):
    level, tech, text, ref, note = P[pid]
    if pid in DONE:
        checks.append({
            "property_id": pid,
            "quick_cmd": f"./run.sh {pid} quick",
            "thorough_cmd": f"./run.sh {pid} thorough",
            "evidence_file": f"/verif/evidence/{pid}.json",
            "replay_cmd_template": "./run.sh replay {path}",
            "engine": "vmon",
            "level_claimed": {"category": level, "text": text, "design_ref": "DESIGN.md section " + ref},
            "level_note": note,
            "technique": "runtime monitoring: " + tech,
        })
    else:
        na.append({"property_id": pid, "reason": "monitor designed (DESIGN.md section %s) but not built/validated yet in this round; not claimed until it is silent on the unchanged tree" % ref})

m = {
 "version": 1,
 "setup_cmd": "./run.sh setup",
 "hooks": {
   "guard": "verif",
   "enable": "no source hooks: all observation happens at the exported API (logging io.Reader/io.Writer, reflection fingerprint, recover, race detector); checks build /repo's working tree through the harness go.mod replace directive",
   "baseline_off_cmd": "cd /repo && GOFLAGS=-mod=mod GOPROXY=off go test -vet=off -count=1 ./...",
   "source_commits": [],
   "add_only": True,
 },
 "engines": [{"name": "vmon", "path": "/verif/harness", "serves_properties": sorted(DONE & set(P)), "kind_free_text": "Go runtime-monitoring harness: generators + oracles + fault injection + race detector, one monitor per property"}],
 "checks": checks,
 "notes": "Exit codes: 0 held (KNOWN-FINDING lines possible), 1 violation (VIOLATION line + replay file), 2 inconclusive (watchdog, harness failure, coverage floor missed). KNOWN_FINDINGS.txt lists recorded and fixed defects.",
 "not_applicable": na,
}
out = os.path.join(HERE, "MANIFEST.json")
json.dump(m, open(out, "w"), indent=1)
open(out, "a").write("\n")
try:
    import jsonschema
    jsonschema.validate(m, json.load(open("/root/.vp/MANIFEST.schema.json")))
    print("MANIFEST.json valid;", len(checks), "checks,", len(na), "not_applicable")
except ImportError:
    print("jsonschema not importable; written without validation")
