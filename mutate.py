#!/usr/bin/env python3
"""Automated mutation sampling (development aid, not a registered check).

Generates single-edit mutants of the library sources, keeps those that still build and pass the
repository's own suite, runs the quick checks against each (in a scratch worktree, VERIF_REPO /
VERIF_OUT) and appends one JSON line per mutant to the results file. Survivors (no check
fires) are either equivalent mutants or holes in the monitors.

usage: mutate.py <results.jsonl> [--files a.go,b.go] [--max N] [--seed S] [--checks "C01 C02 ..."]
"""
import json, os, random, re, shutil, subprocess, sys, tempfile

ENV = dict(os.environ, GOFLAGS="-mod=mod", GOPROXY="off", GOSUMDB="off", GOTOOLCHAIN="local")
ALL = "C01 C02 C03 C04 C05 C06 C07 C08 C09 C10 C11 C12 C14 C15 C16 C17 C18 C19 C20".split()


def sh(cmd, cwd=None, timeout=3600):
    try:
        r = subprocess.run(["timeout", "-k", "5", str(timeout), "bash", "-c", cmd], cwd=cwd, env=ENV, capture_output=True, text=True, errors="replace", timeout=timeout + 60)
        return r.returncode, r.stdout + r.stderr
    except subprocess.TimeoutExpired:
        return 124, "timeout"


OPS = [
    (r"==", "!="), (r"!=", "=="), (r"&&", "||"), (r"\|\|", "&&"), (r"\btrue\b", "false"), (r"\bfalse\b", "true"),
    (r">= ", "> "), (r"> 0", ">= 0"), (r"< ", "<= "), (r"- 1\b", "- 2"), (r"\+ 1\b", "+ 0"), (r"len\((\w+)\) == 0", r"len(\1) != 0"),
    (r"!(\w)", r"\1"), (r"\bcontinue\b", "break"), (r"\bbreak\b", "continue"), (r"strings\.ToLower\(([^()]*)\)", r"\1"),
    (r'"(\w[\w-]*)", ', ""),  # drop one name from a list
    (r"return true", "return false"), (r"return false", "return true"), (r"\+\+", "--"),
    (r"append\((\w+(?:\[[^\]]*\])*), ", r"append(\1[:0], "),
    (r"\^", ""), (r"\$`", "`"), (r"\\\.", "."),
]


def candidates(path, src):
    out = []
    lines = src.split("\n")
    in_comment = False
    for i, line in enumerate(lines):
        s = line.strip()
        if s.startswith("/*"):
            in_comment = True
        if in_comment:
            if "*/" in s:
                in_comment = False
            continue
        if not s or s.startswith("//") or s.startswith("import") or s.startswith("package"):
            continue
        code = line.split("//")[0] if '"' not in line and "`" not in line else line
        for pat, rep in OPS:
            for m in re.finditer(pat, code):
                new = code[:m.start()] + m.expand(rep) + code[m.end():]
                if new != line:
                    out.append((i, line, new + line[len(code):]))
        # statement deletion
        if re.match(r"^\s*(\w[\w.\[\]]* (=|\+=) .*|\w[\w.]*\(.*\)|continue|break|return .*)$", line) and not s.startswith("return"):
            out.append((i, line, re.match(r"^\s*", line).group(0) + "_ = 0"))
    return out


def main():
    res = sys.argv[1]
    args = sys.argv[2:]
    files = ["sanitize.go", "policy.go", "helpers.go", "policies.go", "css/handlers.go"]
    maxn, seed, checks = 100, 1, ALL
    i = 0
    while i < len(args):
        if args[i] == "--files":
            files = args[i + 1].split(","); i += 2
        elif args[i] == "--max":
            maxn = int(args[i + 1]); i += 2
        elif args[i] == "--seed":
            seed = int(args[i + 1]); i += 2
        elif args[i] == "--checks":
            checks = args[i + 1].split(); i += 2
        else:
            i += 1
    rnd = random.Random(seed)
    cands = []
    for f in files:
        src = open(os.path.join("/repo", f)).read()
        for (ln, old, new) in candidates(f, src):
            cands.append((f, ln, old, new))
    rnd.shuffle(cands)
    done = set()
    if os.path.exists(res):
        for l in open(res):
            try:
                d = json.loads(l); done.add((d["file"], d["line"], d["new"]))
            except Exception:
                pass
    w = tempfile.mkdtemp(prefix="mutwt.", dir="/tmp"); os.rmdir(w)
    rc, out = sh(f"git -C /repo worktree add -q --detach {w} HEAD"); assert rc == 0, out
    tested = 0
    try:
        for (f, ln, old, new) in cands:
            if tested >= maxn:
                break
            if (f, ln + 1, new.strip()) in done:
                continue
            sh("git checkout -- .", cwd=w)
            p = os.path.join(w, f)
            lines = open(p).read().split("\n")
            if lines[ln] != old:
                continue
            lines[ln] = new
            open(p, "w").write("\n".join(lines))
            rc, out = sh("go build ./... && go test -vet=off -count=1 -timeout 60s ./...", cwd=w, timeout=120)
            rec = {"file": f, "line": ln + 1, "old": old.strip(), "new": new.strip()}
            if rc != 0:
                rec["status"] = "killed-by-build-or-suite"
                open(res, "a").write(json.dumps(rec) + "\n")
                continue
            tested += 1
            det = {}
            outdir = f"/tmp/vmon-scratch-out/mut"
            order = {"css/handlers.go": "C18 C14 C10 C07 C20 C04", "helpers.go": "C19 C04 C07 C03 C17 C02 C20", "policies.go": "C04 C07 C17 C20",
                     "policy.go": "C17 C07 C02 C01 C10 C03 C11 C12 C08 C05 C04 C20 C06 C09 C16 C15 C14 C18 C19"}.get(f, "C01 C02 C06 C08 C09 C05 C07 C03 C10 C11 C12 C20 C16 C15 C04 C17 C14").split()
            for c in [c for c in order if c in checks] + [c for c in checks if c not in order and os.environ.get("MUT_ALL") == "1"]:
                rc, out = sh(f"VERIF_REPO={w} VERIF_OUT={outdir} ./run.sh {c} quick", cwd=os.environ.get("VERIF_DIR", "/verif"), timeout=3000)
                if rc != 0:
                    det[c] = {"exit": rc, "sigs": sorted(set(re.findall(r"signature=(\S+)", out)))[:4], "inc": re.findall(r"INCONCLUSIVE[^\n]{0,200}", out)[:1]}
                    if rc == 1 and os.environ.get("MUT_ALL") != "1":
                        break  # one detection is enough
            rec["status"] = "detected" if any(v["exit"] == 1 for v in det.values()) else ("inconclusive" if det else "SURVIVED")
            rec["checks"] = det
            open(res, "a").write(json.dumps(rec) + "\n")
            print(rec["status"], f, ln + 1, old.strip()[:70], "=>", new.strip()[:70], {k: v["sigs"][:1] for k, v in det.items()}, flush=True)
    finally:
        sh(f"git -C /repo worktree remove --force {w}")
        shutil.rmtree(w, ignore_errors=True)


if __name__ == "__main__":
    main()
