#!/bin/bash
# Entry point of every MANIFEST command:  ./run.sh <property-id> <quick|thorough>
#                                         ./run.sh replay <replay-file>
#                                         ./run.sh setup
# Rebuilds the monitor binary from /verif/harness against /repo's current
# working tree (go.mod: replace github.com/microcosm-cc/bluemonday => /repo)
# and runs it. Exit 0 held, 1 violation (VIOLATION line), 2 inconclusive.
set -u
cd "$(dirname "$0")"
VERIF="$(pwd)"
export GOFLAGS=-mod=mod GOPROXY=off GOSUMDB=off GOTOOLCHAIN=local
export CARGO_NET_OFFLINE=true PIP_NO_INDEX=1
# the monitors allocate many short-lived strings on all cores; a lazier GC cuts wall time 2-3x
export GOGC="${GOGC:-800}"
REPO="${VERIF_REPO:-/repo}"

BIN="$(mktemp -d "${TMPDIR:-/tmp}/vmon.XXXXXX")"
trap 'rm -rf "$BIN"' EXIT

MODFLAG=""
if [ "$REPO" != "/repo" ]; then
  # dev/testing only: build against another checkout (e.g. a scratch worktree with a seeded change)
  sed "s#=> /repo#=> $REPO#" "$VERIF/harness/go.mod" > "$BIN/go.mod"
  cp "$VERIF/harness/go.sum" "$BIN/go.sum"
  MODFLAG="-modfile=$BIN/go.mod"
  export VERIF_REPO="$REPO" VERIF_OUT="${VERIF_OUT:-/tmp/vmon-scratch-out}"
  mkdir -p "$VERIF_OUT"
fi

build() { # $1 = output, rest = extra go build flags
  local out="$1"; shift
  (cd "$VERIF/harness" && go build $MODFLAG "$@" -o "$out" ./cmd/vmon) 2>"$BIN/build.log"
  local rc=$?
  if [ $rc -ne 0 ]; then
    echo "INCONCLUSIVE: build of the monitor against $REPO failed:" ; cat "$BIN/build.log"
    exit 2
  fi
}

case "${1:-}" in
  setup)
    build "$BIN/vmon"
    build "$BIN/vmon-race" -race
    (cd "$REPO" && go build -o "$BIN/" ./cmd/... ) || exit 2
    echo "setup ok"; exit 0 ;;
  selftest)
    # unit tests of the harness's own oracles (vectors for the CSS reader, URL classifier, balance checker)
    (cd "$VERIF/harness" && go test $MODFLAG ./internal/...) ; exit $? ;;
  replay)
    f="${2:?replay file}"
    prop=$(python3 -c "import json,sys;print(json.load(open(sys.argv[1]))['property'])" "$f")
    if [ "$prop" = "C13" ]; then build "$BIN/vmon" -race; else build "$BIN/vmon"; fi
    if [ "$prop" = "C15" ]; then (cd "$REPO" && go build -o "$BIN/" ./cmd/...) || exit 2; export VERIF_CMD_BIN="$BIN"; fi
    "$BIN/vmon" -verif "$VERIF" -replay "$f"; exit $? ;;
esac

PROP="${1:?property id}"
TIER="${2:-${VERIF_TIER:-quick}}"
WD=1500; [ "$TIER" = thorough ] && WD=5400

case "$PROP" in
  C13) build "$BIN/vmon" -race
       export GORACE="halt_on_error=0 log_path=$BIN/race" ;;
  C15) build "$BIN/vmon"
       (cd "$REPO" && go build -o "$BIN/" ./cmd/...) >"$BIN/cmdbuild.log" 2>&1 || { echo "INCONCLUSIVE: cmd tools do not build"; cat "$BIN/cmdbuild.log"; exit 2; }
       export VERIF_CMD_BIN="$BIN" ;;
  *)   build "$BIN/vmon" ;;
esac
export VERIF_BIN_DIR="$BIN"
timeout -s QUIT -k 30 "$WD" "$BIN/vmon" -verif "$VERIF" -prop "$PROP" -tier "$TIER" >"$BIN/out.log" 2>&1
rc=$?
# keep stdout small: goroutine dumps of a QUIT-killed run are cut to the head
head -c 400000 "$BIN/out.log"
if [ $rc -eq 124 ] || [ $rc -eq 137 ] || [ $rc -eq 131 ]; then
  echo "INCONCLUSIVE property=$PROP: outer wall-clock watchdog (${WD}s) fired, or the monitor process was killed from outside (exit $rc; 137 without a ${WD}s wait is the kernel's out-of-memory killer)"
  exit 2
fi
exit $rc
