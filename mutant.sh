#!/bin/bash
# dev helper: ./mutant.sh <patch-file> "<props>" [tier]
# Applies a patch to a scratch worktree of /repo under /tmp (never to /repo itself), runs the
# repository suite and the named checks against that worktree, removes the worktree.
set -u
patch="$1"; props="$2"; tier="${3:-quick}"
export GOFLAGS=-mod=mod GOPROXY=off GOSUMDB=off GOTOOLCHAIN=local
W=$(mktemp -d /tmp/mrepo.XXXXXX)
git -C /repo worktree add -q --detach "$W" HEAD || exit 9
trap 'git -C /repo worktree remove --force "$W" >/dev/null 2>&1; rm -rf "$W"' EXIT
(cd "$W" && git apply "$patch") || { echo "patch does not apply"; exit 9; }
if [ "${SUITE:-1}" = 1 ]; then (cd "$W" && go test -vet=off -count=1 ./... 2>&1 | grep -v "no test files" | tail -2); fi
cd /verif
for p in $props; do VERIF_REPO="$W" ./run.sh $p $tier | grep -E "^VIOLATION|verdict=|INCONCLUSIVE|signature=" | head -${LINES_MAX:-8} | cut -c1-220; done
