#!/bin/bash
# dev helper: ./mutant.sh <patch-file|-> <prop> [tier]  -- applies a patch to /repo, runs the check, reverts.
set -u
patch="$1"; prop="$2"; tier="${3:-quick}"
cd /repo || exit 9
if ! git diff --quiet; then echo "/repo dirty"; exit 9; fi
if [ "$patch" = "-" ]; then git apply - || exit 9; else git apply "$patch" || exit 9; fi
export GOFLAGS=-mod=mod GOPROXY=off GOSUMDB=off GOTOOLCHAIN=local
if [ "${SUITE:-1}" = 1 ]; then go test -vet=off -count=1 ./... 2>&1 | grep -v "no test files" | tail -3; fi
cd /verif
for p in $prop; do ./run.sh $p $tier | grep -E "^VIOLATION|verdict=|INCONCLUSIVE|signature=" | head -${LINES_MAX:-8}; done
git -C /repo checkout -- .
