module verif/harness

go 1.19

require (
	github.com/aymerick/douceur v0.2.0
	github.com/microcosm-cc/bluemonday v0.0.0
	golang.org/x/net v0.26.0
)

require github.com/gorilla/css v1.0.1 // indirect

replace github.com/microcosm-cc/bluemonday => /repo
