// Package spec is the shadow policy: a plain-data record of builder calls (Op)
// that is (a) forwarded to the real bluemonday builder API and (b) folded into
// a Spec whose semantics are written from the property statements, README and
// doc comments. Oracles read only the Spec, never the *bluemonday.Policy.
package spec

import (
	"encoding/base64"
	"fmt"
	"net/url"
	"regexp"
	"sort"
	"strings"

	"github.com/microcosm-cc/bluemonday"
	"github.com/microcosm-cc/bluemonday/css"

	"verif/harness/internal/gen"
)

// Op kinds.
const (
	KNew              = "NewPolicy"
	KStrict           = "StrictPolicy"
	KUGC              = "UGCPolicy"
	KAllowElements    = "AllowElements"
	KAllowElsMatching = "AllowElementsMatching"
	KAllowAttrs       = "AllowAttrs" // + Scope, optional Re, optional NoAttrs
	KAllowNoAttrs     = "AllowNoAttrs"
	KAllowStyles      = "AllowStyles"
	KSwitch           = "Switch" // Name in Names[0], B
	KDataAttrs        = "AllowDataAttributes"
	KComments         = "AllowComments"
	KSchemes          = "AllowURLSchemes"
	KSchemeCustom     = "AllowURLSchemeWithCustomPolicy"
	KSchemesMatching  = "AllowURLSchemesMatching"
	KRewrite          = "RewriteSrc"
	KSandbox          = "RequireSandboxOnIFrame"
	KSkip             = "SkipElementsContent"
	KKeep             = "AllowElementsContent"
	KStdURLs          = "AllowStandardURLs"
	KStdAttrs         = "AllowStandardAttributes"
	KStyling          = "AllowStyling"
	KImages           = "AllowImages"
	KLists            = "AllowLists"
	KTables           = "AllowTables"
	KDataURIImages    = "AllowDataURIImages"
	KIFrames          = "AllowIFrames"
)

// Switch names.
const (
	SwAddSpaces    = "AddSpaceWhenStrippingTag"
	SwCrossOrigin  = "RequireCrossOriginAnonymous"
	SwNoFollow     = "RequireNoFollowOnLinks"
	SwNoFollowFQ   = "RequireNoFollowOnFullyQualifiedLinks"
	SwNoReferrer   = "RequireNoReferrerOnLinks"
	SwNoReferrerFQ = "RequireNoReferrerOnFullyQualifiedLinks"
	SwTargetBlank  = "AddTargetBlankToFullyQualifiedLinks"
	SwParseable    = "RequireParseableURLs"
	SwRelative     = "AllowRelativeURLs"
)

type Op struct {
	K       string   `json:"k"`
	Names   []string `json:"names,omitempty"` // elements / schemes / switch name
	Attrs   []string `json:"attrs,omitempty"` // attribute or css property names
	Re      string   `json:"re,omitempty"`    // value pattern source
	ElRe    string   `json:"elre,omitempty"`  // element pattern source
	Scope   string   `json:"scope,omitempty"` // els | match | global
	NoAttrs bool     `json:"noattrs,omitempty"`
	B       bool     `json:"b,omitempty"`
	Matcher string   `json:"matcher,omitempty"` // style matcher kind: default | re | enum | handler
	Enum    []string `json:"enum,omitempty"`
	Handler string   `json:"handler,omitempty"`
	Check   string   `json:"check,omitempty"`
	Ints    []int    `json:"ints,omitempty"`
	Fresh   bool     `json:"fresh,omitempty"` // compile patterns into a fresh *regexp.Regexp
}

func (o Op) String() string {
	s := o.K
	if len(o.Attrs) > 0 {
		s += fmt.Sprintf("(%s)", strings.Join(o.Attrs, ","))
	}
	if o.Re != "" {
		s += fmt.Sprintf(".Matching(%q)", o.Re)
	}
	if o.Matcher != "" && o.Matcher != "re" {
		s += "." + o.Matcher
		if o.Handler != "" {
			s += "[" + o.Handler + "]"
		}
		if len(o.Enum) > 0 {
			s += fmt.Sprintf("%q", o.Enum)
		}
	}
	if o.NoAttrs {
		s += ".AllowNoAttrs()"
	}
	switch o.Scope {
	case "els":
		s += fmt.Sprintf(".OnElements(%s)", strings.Join(o.Names, ","))
	case "match":
		s += fmt.Sprintf(".OnElementsMatching(%q)", o.ElRe)
	case "global":
		s += ".Globally()"
	default:
		if len(o.Names) > 0 {
			s += fmt.Sprintf("(%s)", strings.Join(o.Names, ","))
		}
		if o.ElRe != "" {
			s += fmt.Sprintf("(%q)", o.ElRe)
		}
	}
	if o.K == KSwitch {
		s += fmt.Sprintf("=%v", o.B)
	}
	if o.Check != "" {
		s += "[" + o.Check + "]"
	}
	if len(o.Ints) > 0 {
		s += fmt.Sprint(o.Ints)
	}
	return s
}

func Describe(ops []Op) []string {
	out := make([]string, len(ops))
	for i, o := range ops {
		out[i] = o.String()
	}
	return out
}

// ---------------------------------------------------------------------------
// Libraries of harness-owned callbacks.

// StyleHandlers are harness-owned value handlers for MatchingHandler.
var StyleHandlers = map[string]func(string) bool{
	"short":  func(v string) bool { return len(v) > 0 && len(v) <= 8 && !strings.ContainsAny(v, "<>\\()\"'&;:") },
	"digits": func(v string) bool { return v != "" && strings.Trim(v, "0123456789") == "" },
	"never":  func(v string) bool { return false },
	"has-safe": func(v string) bool {
		return strings.HasPrefix(v, "safe-") && strings.Trim(v[5:], "abcdefghijklmnopqrstuvwxyz") == ""
	},
}

// URLChecks are harness-owned custom URL policies.
var URLChecks = map[string]func(u *url.URL) bool{
	"host-example": func(u *url.URL) bool { return u.Host == "example.org" },
	"host-cdn":     func(u *url.URL) bool { return u.Host == "cdn.example.net" },
	"never":        func(u *url.URL) bool { return false },
	"always":       func(u *url.URL) bool { return true },
	"no-query":     func(u *url.URL) bool { return u.RawQuery == "" && u.Fragment == "" },
	"data-image":   DataImageCheck,
}

var dataImagePrefixes = []string{"image/gif;base64,", "image/jpeg;base64,", "image/png;base64,", "image/svg+xml;base64,", "image/webp;base64,"}

// DataImageCheck is the harness's own statement of AllowDataURIImages' check.
func DataImageCheck(u *url.URL) bool {
	if u.RawQuery != "" || u.Fragment != "" {
		return false
	}
	for _, p := range dataImagePrefixes {
		if strings.HasPrefix(u.Opaque, p) {
			_, err := base64.StdEncoding.DecodeString(u.Opaque[len(p):])
			return err == nil
		}
	}
	return false
}

const ProxyHost = "proxy.invalid"

// Rewriters are harness-owned src rewriters. They dereference their argument
// exactly as the documentation's example does.
var Rewriters = map[string]func(u *url.URL){
	"proxy": func(u *url.URL) {
		orig := u.String()
		u.Scheme = "https"
		u.Opaque = ""
		u.User = nil
		u.Host = ProxyHost
		u.Path = "/p"
		u.RawPath = ""
		u.Fragment = ""
		u.RawFragment = ""
		u.RawQuery = "vmark=1&u=" + url.QueryEscape(orig)
	},
}

var SandboxNames = []string{"allow-downloads", "allow-downloads-without-user-activation", "allow-forms", "allow-modals",
	"allow-orientation-lock", "allow-pointer-lock", "allow-popups", "allow-popups-to-escape-sandbox", "allow-presentation",
	"allow-same-origin", "allow-scripts", "allow-storage-access-by-user-activation", "allow-top-navigation",
	"allow-top-navigation-by-user-activation"}

// ---------------------------------------------------------------------------
// Applying ops to the real API.

// Casing rewrites a name argument (C17 exercises letter case).
type Casing func(string) string

func ident(s string) string { return s }

func mapNames(xs []string, c Casing) []string {
	out := make([]string, len(xs))
	for i, x := range xs {
		out[i] = c(x)
	}
	return out
}

func compile(src string, fresh bool) *regexp.Regexp {
	if fresh {
		return gen.FreshRe(src)
	}
	return gen.Re(src)
}

// Build creates the real policy for an op list. ops[0] must be a base
// constructor op.
func Build(ops []Op) *bluemonday.Policy { return BuildCased(ops, nil) }

func BuildCased(ops []Op, c Casing) *bluemonday.Policy {
	var p *bluemonday.Policy
	for _, o := range ops {
		p = Apply(p, o, c)
	}
	return p
}

// Apply forwards one op to the real builder API and returns the policy.
func Apply(p *bluemonday.Policy, o Op, c Casing) *bluemonday.Policy {
	if c == nil {
		c = ident
	}
	switch o.K {
	case KNew:
		return bluemonday.NewPolicy()
	case KStrict:
		return bluemonday.StrictPolicy()
	case KUGC:
		return bluemonday.UGCPolicy()
	}
	if p == nil {
		panic("spec.Apply: first op must be a constructor, got " + o.K)
	}
	switch o.K {
	case KAllowElements:
		p.AllowElements(mapNames(o.Names, c)...)
	case KAllowElsMatching:
		p.AllowElementsMatching(compile(o.ElRe, o.Fresh))
	case KAllowAttrs, KAllowNoAttrs:
		var b interface {
			OnElements(...string) *bluemonday.Policy
			OnElementsMatching(*regexp.Regexp) *bluemonday.Policy
			Globally() *bluemonday.Policy
		}
		if o.K == KAllowNoAttrs {
			b = p.AllowNoAttrs()
		} else {
			ab := p.AllowAttrs(mapNames(o.Attrs, c)...)
			if o.Re != "" {
				ab = ab.Matching(compile(o.Re, o.Fresh))
			}
			if o.NoAttrs {
				ab = ab.AllowNoAttrs()
			}
			b = ab
		}
		switch o.Scope {
		case "els":
			b.OnElements(mapNames(o.Names, c)...)
		case "match":
			b.OnElementsMatching(compile(o.ElRe, o.Fresh))
		case "global":
			b.Globally()
		}
	case KAllowStyles:
		sb := p.AllowStyles(mapNames(o.Attrs, c)...)
		switch o.Matcher {
		case "re":
			sb = sb.Matching(compile(o.Re, o.Fresh))
		case "enum":
			sb = sb.MatchingEnum(append([]string{}, o.Enum...)...)
		case "handler":
			sb = sb.MatchingHandler(StyleHandlers[o.Handler])
		}
		switch o.Scope {
		case "els":
			sb.OnElements(mapNames(o.Names, c)...)
		case "match":
			sb.OnElementsMatching(compile(o.ElRe, o.Fresh))
		case "global":
			sb.Globally()
		}
	case KSwitch:
		switch o.Names[0] {
		case SwAddSpaces:
			p.AddSpaceWhenStrippingTag(o.B)
		case SwCrossOrigin:
			p.RequireCrossOriginAnonymous(o.B)
		case SwNoFollow:
			p.RequireNoFollowOnLinks(o.B)
		case SwNoFollowFQ:
			p.RequireNoFollowOnFullyQualifiedLinks(o.B)
		case SwNoReferrer:
			p.RequireNoReferrerOnLinks(o.B)
		case SwNoReferrerFQ:
			p.RequireNoReferrerOnFullyQualifiedLinks(o.B)
		case SwTargetBlank:
			p.AddTargetBlankToFullyQualifiedLinks(o.B)
		case SwParseable:
			p.RequireParseableURLs(o.B)
		case SwRelative:
			p.AllowRelativeURLs(o.B)
		default:
			panic("unknown switch " + o.Names[0])
		}
	case KDataAttrs:
		p.AllowDataAttributes()
	case KComments:
		p.AllowComments()
	case KSchemes:
		p.AllowURLSchemes(mapNames(o.Names, c)...)
	case KSchemeCustom:
		p.AllowURLSchemeWithCustomPolicy(c(o.Names[0]), URLChecks[o.Check])
	case KSchemesMatching:
		p.AllowURLSchemesMatching(compile(o.Re, o.Fresh))
	case KRewrite:
		p.RewriteSrc(Rewriters[o.Check])
	case KSandbox:
		p.RequireSandboxOnIFrame(sandboxVals(o.Ints)...)
	case KSkip:
		p.SkipElementsContent(mapNames(o.Names, c)...)
	case KKeep:
		p.AllowElementsContent(mapNames(o.Names, c)...)
	case KStdURLs:
		p.AllowStandardURLs()
	case KStdAttrs:
		p.AllowStandardAttributes()
	case KStyling:
		p.AllowStyling()
	case KImages:
		p.AllowImages()
	case KLists:
		p.AllowLists()
	case KTables:
		p.AllowTables()
	case KDataURIImages:
		p.AllowDataURIImages()
	case KIFrames:
		p.AllowIFrames(sandboxVals(o.Ints)...)
	default:
		panic("unknown op " + o.K)
	}
	return p
}

func sandboxVals(is []int) []bluemonday.SandboxValue {
	out := make([]bluemonday.SandboxValue, len(is))
	for i, v := range is {
		out[i] = bluemonday.SandboxValue(v)
	}
	return out
}

// ---------------------------------------------------------------------------
// The shadow model.

type AttrRule struct {
	Re string // "" accepts every value
}

type StyleRule struct {
	Kind    string // default | re | enum | handler
	Re      string
	Enum    []string
	Handler string
	Prop    string
}

type PatAttrs struct {
	Re    string
	Attrs map[string][]AttrRule
}

type PatStyles struct {
	Re    string
	Props map[string][]StyleRule
}

type Spec struct {
	Els       map[string]map[string][]AttrRule
	ElPats    []*PatAttrs
	Global    map[string][]AttrRule
	BareEls   map[string]bool
	BarePats  []string
	StyEls    map[string]map[string][]StyleRule
	StyPats   []*PatStyles
	StyGlobal map[string][]StyleRule

	URLCheck   bool
	Relative   bool
	Schemes    map[string][]string // scheme -> custom check ids; empty = every URL of the scheme
	SchemePats []string
	Rewriter   string

	NoFollow, NoFollowFQ, NoReferrer, NoReferrerFQ, TargetBlank bool
	CrossOrigin, AddSpaces, DataAttrs, Comments                 bool
	Sandbox                                                     map[string]bool // nil: option off
	Skip                                                        map[string]bool
}

// DefaultBare is the documented table of elements that are meaningful without
// attributes (the harness's own copy).
var DefaultBare = strings.Fields(`abbr acronym address article aside audio b bdi blockquote body br button canvas caption
center cite code col colgroup datalist dd del details dfn div dl dt em fieldset figcaption figure footer h1 h2 h3 h4 h5 h6
head header hgroup hr html i ins kbd li mark marquee nav ol optgroup option p picture pre q rp rt ruby s samp script section
select small span strike strong style sub summary sup svg table tbody td textarea tfoot th thead title time tr tt u ul var
video wbr`)

// DefaultSkip is the documented default skip-content set.
var DefaultSkip = strings.Fields(`frame frameset iframe noembed noframes noscript nostyle object script style title`)

func newSpec() *Spec {
	s := &Spec{Els: map[string]map[string][]AttrRule{}, Global: map[string][]AttrRule{}, BareEls: map[string]bool{},
		StyEls: map[string]map[string][]StyleRule{}, StyGlobal: map[string][]StyleRule{}, Schemes: map[string][]string{}, Skip: map[string]bool{}}
	for _, e := range DefaultBare {
		s.BareEls[e] = true
	}
	for _, e := range DefaultSkip {
		s.Skip[e] = true
	}
	return s
}

func (s *Spec) pat(re string) *PatAttrs {
	for _, p := range s.ElPats {
		if p.Re == re {
			return p
		}
	}
	p := &PatAttrs{Re: re, Attrs: map[string][]AttrRule{}}
	s.ElPats = append(s.ElPats, p)
	return p
}

func (s *Spec) spat(re string) *PatStyles {
	for _, p := range s.StyPats {
		if p.Re == re {
			return p
		}
	}
	p := &PatStyles{Re: re, Props: map[string][]StyleRule{}}
	s.StyPats = append(s.StyPats, p)
	return p
}

func (s *Spec) el(name string) map[string][]AttrRule {
	name = strings.ToLower(name)
	if s.Els[name] == nil {
		s.Els[name] = map[string][]AttrRule{}
	}
	return s.Els[name]
}

// FromOps folds an op list into the shadow model (one clause per builder call,
// Appendix A of DESIGN.md).
func FromOps(ops []Op) *Spec {
	var s *Spec
	for _, o := range ops {
		switch o.K {
		case KNew, KStrict:
			s = newSpec()
			continue
		case KUGC:
			s = FromOps(UGCOps())
			continue
		}
		s.apply(o)
	}
	return s
}

func (s *Spec) apply(o Op) {
	lower := func(xs []string) []string {
		out := make([]string, len(xs))
		for i, x := range xs {
			out[i] = strings.ToLower(x)
		}
		return out
	}
	switch o.K {
	case KAllowElements:
		for _, n := range o.Names {
			s.el(n)
		}
	case KAllowElsMatching:
		s.pat(o.ElRe)
	case KAllowAttrs, KAllowNoAttrs:
		rule := AttrRule{Re: o.Re}
		attrs := lower(o.Attrs)
		bare := o.NoAttrs || o.K == KAllowNoAttrs
		switch o.Scope {
		case "els":
			for _, e := range lower(o.Names) {
				// an element is allowed by this call only if the call names at
				// least one attribute or is an AllowNoAttrs call
				if len(attrs) > 0 || bare {
					s.el(e)
				}
				for _, a := range attrs {
					s.Els[e][a] = append(s.Els[e][a], rule)
				}
				if bare {
					s.BareEls[e] = true
				}
			}
		case "match":
			if len(attrs) > 0 || bare {
				p := s.pat(o.ElRe)
				for _, a := range attrs {
					p.Attrs[a] = append(p.Attrs[a], rule)
				}
			}
			if bare {
				s.BarePats = append(s.BarePats, o.ElRe)
			}
		case "global":
			for _, a := range attrs {
				s.Global[a] = append(s.Global[a], rule)
			}
		}
	case KAllowStyles:
		for _, prop := range lower(o.Attrs) {
			r := StyleRule{Prop: prop}
			switch {
			case o.Matcher == "handler":
				r.Kind, r.Handler = "handler", o.Handler
			case o.Matcher == "enum" && len(o.Enum) > 0:
				r.Kind, r.Enum = "enum", o.Enum
			case o.Matcher == "re":
				r.Kind, r.Re = "re", o.Re
			default:
				r.Kind = "default"
			}
			switch o.Scope {
			case "els":
				for _, e := range lower(o.Names) {
					if s.StyEls[e] == nil {
						s.StyEls[e] = map[string][]StyleRule{}
					}
					s.StyEls[e][prop] = append(s.StyEls[e][prop], r)
				}
			case "match":
				p := s.spat(o.ElRe)
				p.Props[prop] = append(p.Props[prop], r)
			case "global":
				s.StyGlobal[prop] = append(s.StyGlobal[prop], r)
			}
		}
	case KSwitch:
		switch o.Names[0] {
		case SwAddSpaces:
			s.AddSpaces = o.B
		case SwCrossOrigin:
			s.CrossOrigin = o.B
		case SwNoFollow:
			s.NoFollow, s.URLCheck = o.B, true
		case SwNoFollowFQ:
			s.NoFollowFQ, s.URLCheck = o.B, true
		case SwNoReferrer:
			s.NoReferrer, s.URLCheck = o.B, true
		case SwNoReferrerFQ:
			s.NoReferrerFQ, s.URLCheck = o.B, true
		case SwTargetBlank:
			s.TargetBlank, s.URLCheck = o.B, true
		case SwParseable:
			s.URLCheck = o.B
		case SwRelative:
			s.URLCheck, s.Relative = true, o.B
		}
	case KDataAttrs:
		s.DataAttrs = true
	case KComments:
		s.Comments = true
	case KSchemes:
		s.URLCheck = true
		for _, n := range lower(o.Names) {
			s.Schemes[n] = []string{}
		}
	case KSchemeCustom:
		s.URLCheck = true
		n := strings.ToLower(o.Names[0])
		s.Schemes[n] = append(s.Schemes[n], o.Check)
	case KSchemesMatching:
		s.SchemePats = append(s.SchemePats, o.Re)
	case KRewrite:
		s.Rewriter = o.Check
	case KSandbox:
		s.Sandbox = map[string]bool{}
		for _, i := range o.Ints {
			if i >= 0 && i < len(SandboxNames) {
				s.Sandbox[SandboxNames[i]] = true
			}
		}
	case KSkip:
		for _, n := range lower(o.Names) {
			s.Skip[n] = true
		}
	case KKeep:
		for _, n := range lower(o.Names) {
			delete(s.Skip, n)
		}
	default:
		for _, sub := range ExpandHelper(o) {
			s.apply(sub)
		}
	}
}

// ---------------------------------------------------------------------------
// Queries (semantics).

// normalName lower-cases ASCII only: "scrİpt" (U+0130) is not "script" to a browser.
func normalName(n string) string {
	b := []byte(n)
	for i, c := range b {
		if c >= 'A' && c <= 'Z' {
			b[i] = c + 32
		}
	}
	return string(b)
}

// IsScriptStyle reports the two names that never survive without AllowUnsafe.
func IsScriptStyle(n string) bool { n = normalName(n); return n == "script" || n == "style" }

func (s *Spec) matchingPats(name string) []*PatAttrs {
	var out []*PatAttrs
	for _, p := range s.ElPats {
		if gen.Re(p.Re).MatchString(name) {
			out = append(out, p)
		}
	}
	return out
}

// ElementAllowed: named explicitly or matched by an element pattern; never
// script/style.
func (s *Spec) ElementAllowed(name string) bool {
	if IsScriptStyle(name) {
		return false
	}
	if _, ok := s.Els[name]; ok {
		return true
	}
	return len(s.matchingPats(name)) > 0
}

func (s *Spec) Explicit(name string) bool { _, ok := s.Els[name]; return ok }

// RulesLenient: every rule that could justify attribute key on element el
// (element rules ∪ matching-pattern rules ∪ global) — the reading of the
// safety properties.
func (s *Spec) RulesLenient(el, key string) []AttrRule {
	var out []AttrRule
	out = append(out, s.Els[el][key]...)
	for _, p := range s.matchingPats(el) {
		out = append(out, p.Attrs[key]...)
	}
	out = append(out, s.Global[key]...)
	return out
}

// RulesStrict: the rules that are guaranteed to apply (README: an explicitly
// named element ignores pattern rules) — the reading of the pass-through
// properties.
func (s *Spec) RulesStrict(el, key string) []AttrRule {
	var out []AttrRule
	if m, ok := s.Els[el]; ok {
		out = append(out, m[key]...)
	} else {
		for _, p := range s.matchingPats(el) {
			out = append(out, p.Attrs[key]...)
		}
	}
	out = append(out, s.Global[key]...)
	return out
}

func Accepts(rules []AttrRule, val string) bool {
	for _, r := range rules {
		if r.Re == "" || gen.Re(r.Re).MatchString(val) {
			return true
		}
	}
	return false
}

func (s *Spec) BareAllowed(el string) bool {
	if s.BareEls[el] {
		return true
	}
	for _, p := range s.BarePats {
		if gen.Re(p).MatchString(el) {
			return true
		}
	}
	return false
}

// StyleRulesLenient returns every style rule that may apply to (el, prop).
func (s *Spec) StyleRulesLenient(el, prop string) []StyleRule {
	var out []StyleRule
	out = append(out, s.StyEls[el][prop]...)
	for _, p := range s.StyPats {
		if gen.Re(p.Re).MatchString(el) {
			out = append(out, p.Props[prop]...)
		}
	}
	out = append(out, s.StyGlobal[prop]...)
	return out
}

// StyleRulesStrict: element rules shadow pattern rules; global always.
func (s *Spec) StyleRulesStrict(el, prop string) []StyleRule {
	var out []StyleRule
	if len(s.StyEls[el]) > 0 {
		out = append(out, s.StyEls[el][prop]...)
	} else {
		for _, p := range s.StyPats {
			if gen.Re(p.Re).MatchString(el) {
				out = append(out, p.Props[prop]...)
			}
		}
	}
	out = append(out, s.StyGlobal[prop]...)
	return out
}

// HasStyleRules: style on el is governed by style rules.
func (s *Spec) HasStyleRules(el string) bool {
	if len(s.StyGlobal) > 0 || len(s.StyEls[el]) > 0 {
		return true
	}
	for _, p := range s.StyPats {
		if len(p.Props) > 0 && gen.Re(p.Re).MatchString(el) {
			return true
		}
	}
	return false
}

// StyleAccepts evaluates one rule on a decoded, lower-cased value.
func StyleAccepts(r StyleRule, v string) bool {
	switch r.Kind {
	case "handler":
		return StyleHandlers[r.Handler](v)
	case "enum":
		for _, e := range r.Enum {
			if strings.EqualFold(e, v) {
				return true
			}
		}
		return false
	case "re":
		return gen.Re(r.Re).MatchString(v)
	default:
		return css.GetDefaultHandler(r.Prop)(v)
	}
}

// SchemeVerdict: may a URL with this (lower-case) scheme survive? u is the
// harness's parse of the URL for custom checks (nil: custom checks fail).
func (s *Spec) SchemeVerdict(scheme string, u *url.URL) bool {
	if checks, ok := s.Schemes[scheme]; ok {
		if len(checks) == 0 {
			return true
		}
		if u == nil {
			return false
		}
		for _, c := range checks {
			if URLChecks[c](u) {
				return true
			}
		}
		return false
	}
	for _, p := range s.SchemePats {
		if gen.Re(p).MatchString(scheme) {
			return true
		}
	}
	return false
}

func (s *Spec) AnyLinkOption() bool {
	return s.NoFollow || s.NoFollowFQ || s.NoReferrer || s.NoReferrerFQ || s.TargetBlank
}

// AllowedElementNames lists the explicit names (sorted).
func (s *Spec) AllowedElementNames() []string {
	out := make([]string, 0, len(s.Els))
	for k := range s.Els {
		out = append(out, k)
	}
	sort.Strings(out)
	return out
}

// RawTextAllowed: does the policy allow one of the raw-text elements of C06/C20?
func (s *Spec) RawTextAllowed() bool {
	for _, n := range []string{"iframe", "noembed", "noframes", "noscript", "plaintext", "xmp"} {
		if s.ElementAllowed(n) {
			return true
		}
	}
	return false
}
