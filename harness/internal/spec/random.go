package spec

import (
	"math/rand"

	"verif/harness/internal/gen"
)

// GenOpts steers RandomOps.
type GenOpts struct {
	Styles       bool // generate AllowStyles rules
	ScriptStyle  bool // try to allow script/style (C05)
	NoComments   bool
	NoRewriter   bool
	NoRawText    bool     // never allow raw-text elements
	NoURLValRe   bool     // no value pattern on attributes the sanitiser rewrites (C20 class)
	Base         []string // candidate base constructors (default: NewPolicy mostly)
	MaxRules     int
	NoDefaultCSS bool // do not use default handlers (keeps C14's backtracking away)
}

// ElPatterns: element patterns the generator draws from.
var ElPatterns = []string{`^my-`, `^x-[a-z-]+$`, `^h[1-6]$`, `^(b|i|em)$`, `-`, `^[a-z]{1,3}$`, `^(svg|math|mtext|mi|g|path)$`, `^t[dhr]$`, `^my-x$`, `^my-widget$`, `^x-[a-zé]+$`}

// ElPatternsDanger also match script/style.
var ElPatternsDanger = []string{`.*`, `^s`, `^(script|style)$`, `(?i)script`, `^.{5,6}$`}

var genAttrNames = []string{"id", "class", "title", "lang", "href", "src", "cite", "rel", "target", "alt", "width", "height", "align", "type", "value", "name",
	"style", "data-x", "data-xml-id", "data-Upper", "onclick", "xlink:href", "crossorigin", "sandbox", "srcset", "action", "background", "poster", "datetime", "colspan", "x", "role", "aria-label", "media", "method", "http-equiv", "content", "loading", "srcdoc", "download", "hidden", "checked", "disabled", "open", "reversed", "controls", "async", "nowrap", "selected", "required"}

var genStyleProps = []string{"color", "background-color", "width", "height", "text-align", "font-size", "margin", "border", "background", "background-image", "font-family",
	"display", "float", "opacity", "z-index", "text-decoration", "list-style", "transform", "filter", "animation", "behavior", "-moz-binding", "zoom", "x-unknown", "margin-inline-start", "padding-block", "color-start", "border-inline-end", "-webkit-color"}

var genRewritten = map[string]bool{"href": true, "src": true, "cite": true, "rel": true, "target": true, "crossorigin": true, "sandbox": true}

var rawTextEls = map[string]bool{"iframe": true, "noembed": true, "noframes": true, "noscript": true, "plaintext": true, "xmp": true}

func elementPool(o GenOpts) []string {
	var pool []string
	pool = append(pool, gen.ElOrdinary...)
	pool = append(pool, gen.ElOrdinary...) // weight
	pool = append(pool, gen.ElVoid...)
	pool = append(pool, gen.ElForeign...)
	pool = append(pool, gen.ElCustom...)
	pool = append(pool, gen.ElMedia...)
	pool = append(pool, gen.ElSkip...)
	pool = append(pool, "a", "a", "img", "img", "iframe", "link", "area", "blockquote", "q", "audio", "video", "source", "input", "track", "embed", "base", "del", "ins")
	if !o.NoRawText {
		pool = append(pool, gen.ElRawText...)
	}
	if o.ScriptStyle {
		pool = append(pool, "script", "style", "script", "style", "SCRIPT", "Style")
	}
	out := pool[:0]
	for _, e := range pool {
		if e == "image" {
			continue
		}
		if o.NoRawText && rawTextEls[e] {
			continue
		}
		if !o.ScriptStyle && IsScriptStyle(e) {
			continue
		}
		out = append(out, e)
	}
	return out
}

func pickN(r *rand.Rand, pool []string, n int) []string {
	out := make([]string, n)
	for i := range out {
		out[i] = pool[r.Intn(len(pool))]
	}
	return out
}

// RandomOps returns a random builder-call history.
func RandomOps(r *rand.Rand, o GenOpts) []Op {
	base := KNew
	if len(o.Base) > 0 {
		base = o.Base[r.Intn(len(o.Base))]
	} else if r.Intn(12) == 0 {
		base = KUGC
	} else if r.Intn(25) == 0 {
		base = KZero
	}
	ops := []Op{{K: base}}
	pool := elementPool(o)
	pats := ElPatterns
	if o.ScriptStyle {
		pats = append(append([]string{}, ElPatterns...), ElPatternsDanger...)
	}
	valRe := func(attrs []string) string {
		if r.Intn(2) == 0 {
			return ""
		}
		if o.NoURLValRe {
			for _, a := range attrs {
				if genRewritten[a] {
					return ""
				}
			}
		}
		return gen.ValLib[r.Intn(len(gen.ValLib))].Re
	}
	max := o.MaxRules
	if max == 0 {
		max = 10
	}
	n := 2 + r.Intn(max)
	if o.MaxRules == 0 && r.Intn(40) == 0 {
		n = 40 + r.Intn(80) // a large policy: table sizes and rule counts well beyond the usual
	}
	for i := 0; i < n; i++ {
		fresh := r.Intn(3) == 0
		switch k := r.Intn(20); {
		case k < 4:
			ops = append(ops, Op{K: KAllowElements, Names: pickN(r, pool, 1+r.Intn(4))})
		case k < 6:
			ops = append(ops, Op{K: KAllowElsMatching, ElRe: pats[r.Intn(len(pats))], Fresh: fresh})
		case k < 14:
			as := pickN(r, genAttrNames, 1+r.Intn(3))
			op := Op{K: KAllowAttrs, Attrs: as, Re: valRe(as), NoAttrs: r.Intn(7) == 0, Fresh: fresh}
			switch s := r.Intn(20); {
			case s < 11:
				op.Scope, op.Names = "els", pickN(r, pool, 1+r.Intn(3))
			case s < 15:
				op.Scope, op.ElRe = "match", pats[r.Intn(len(pats))]
			default:
				op.Scope = "global"
			}
			ops = append(ops, op)
		case k < 16:
			op := Op{K: KAllowNoAttrs, Fresh: fresh}
			if r.Intn(3) > 0 {
				op.Scope, op.Names = "els", pickN(r, pool, 1+r.Intn(3))
			} else {
				op.Scope, op.ElRe = "match", pats[r.Intn(len(pats))]
			}
			ops = append(ops, op)
		default:
			if !o.Styles {
				ops = append(ops, Op{K: KAllowElements, Names: pickN(r, pool, 1+r.Intn(3))})
				continue
			}
			ops = append(ops, RandomStyleOp(r, pool, pats, o))
		}
	}
	// degenerate calls: a builder given no names at all registers nothing
	if r.Intn(5) == 0 {
		as := pickN(r, genAttrNames, 1+r.Intn(2))
		var op Op
		switch r.Intn(7) {
		case 0:
			op = Op{K: KAllowAttrs, Attrs: as, Re: valRe(as), Scope: "els", Names: []string{}}
		case 1:
			op = Op{K: KAllowAttrs, Attrs: as, Scope: "els", Names: []string{}}
		case 2:
			op = Op{K: KAllowAttrs, Attrs: []string{}, Scope: "global"}
		case 3:
			op = Op{K: KAllowAttrs, Attrs: []string{}, Scope: "els", Names: pickN(r, pool, 1+r.Intn(2))}
		case 4:
			op = Op{K: KAllowElements, Names: []string{}}
		case 5:
			op = Op{K: KAllowNoAttrs, Scope: "els", Names: []string{}}
		default:
			op = Op{K: KSkip, Names: []string{}}
		}
		switch r.Intn(8) {
		case 0, 1:
			op = Op{K: KAllowNoAttrs, Scope: "global"} // AllowNoAttrs().Globally(): no attribute names, nothing to bind
		case 2:
			op = Op{K: KKeep, Names: []string{}} // AllowElementsContent(): no names, nothing changes
		}
		at := 1 + r.Intn(len(ops))
		ops = append(ops[:at], append([]Op{op}, ops[at:]...)...)
	}
	// switches and options
	sws := []string{SwAddSpaces, SwCrossOrigin, SwNoFollow, SwNoFollowFQ, SwNoReferrer, SwNoReferrerFQ, SwTargetBlank, SwParseable, SwRelative}
	for _, s := range sws {
		if r.Intn(4) == 0 {
			if r.Intn(4) == 0 { // toggled before its final value
				ops = append(ops, Op{K: KSwitch, Names: []string{s}, B: r.Intn(2) == 0})
			}
			ops = append(ops, Op{K: KSwitch, Names: []string{s}, B: r.Intn(4) > 0})
		}
	}
	if r.Intn(2) == 0 {
		ops = append(ops, Op{K: KSchemes, Names: pickN(r, []string{"http", "https", "mailto", "ftp", "tel", "x-app", "HTTP", "javascript-not", "data"}, 1+r.Intn(3))})
	}
	if r.Intn(5) == 0 {
		ops = append(ops, Op{K: KSchemeCustom, Names: []string{gen.Pick(r, []string{"http", "https", "ftp", "x-app"})}, Check: gen.Pick(r, []string{"host-example", "host-cdn", "never", "always", "no-query"})})
	}
	if r.Intn(8) == 0 {
		ops = append(ops, Op{K: KSchemesMatching, Re: gen.Pick(r, []string{`^x-`, `^(ftp|sftp)$`, `^t`, `ws|wss`, `ftp|ftps`, `^(web\+[a-z]+)$`}), Fresh: r.Intn(2) == 0})
	}
	if r.Intn(8) == 0 {
		ops = append(ops, Op{K: KDataURIImages})
	}
	if !o.NoRewriter && r.Intn(8) == 0 {
		ops = append(ops, Op{K: KRewrite, Check: "proxy"})
	}
	if r.Intn(6) == 0 {
		k := r.Intn(5)
		ops = append(ops, Op{K: KSandbox, Ints: r.Perm(14)[:k]})
	}
	if r.Intn(8) == 0 {
		ops = append(ops, Op{K: KIFrames, Ints: r.Perm(14)[:r.Intn(4)]})
	}
	if r.Intn(5) == 0 {
		ops = append(ops, Op{K: KDataAttrs})
	}
	if !o.NoComments && r.Intn(6) == 0 {
		ops = append(ops, Op{K: KComments})
	}
	if r.Intn(5) == 0 {
		ops = append(ops, Op{K: KSkip, Names: pickN(r, append(append([]string{}, pool...), "my-x", "div", "br", "img", "svg", "bgsound", "basefont", "keygen", "frame", "hr", "input", "wbr", "col", "param", "source", "track", "embed", "area", "meta", "link", "base"), 1+r.Intn(3))})
	}
	if r.Intn(5) == 0 {
		names := pickN(r, DefaultSkip, 1+r.Intn(3))
		if !o.ScriptStyle {
			f := names[:0]
			for _, n := range names {
				if !IsScriptStyle(n) {
					f = append(f, n)
				}
			}
			names = f
		}
		if len(names) > 0 {
			ops = append(ops, Op{K: KKeep, Names: names})
		}
	}
	for _, h := range []string{KStdURLs, KStdAttrs, KStyling, KImages, KLists, KTables} {
		if r.Intn(12) == 0 {
			ops = append(ops, Op{K: h})
		}
	}
	// overlap booster: a sibling of an existing rule call with the same scope, target and name
	// but another matcher, so that "rules accumulate" is exercised on every table
	for k := 0; k < 2; k++ {
		if r.Intn(2) == 0 {
			continue
		}
		var cand []int
		for i, o := range ops {
			if (o.K == KAllowAttrs && len(o.Attrs) > 0) || o.K == KAllowStyles {
				cand = append(cand, i)
			}
		}
		if len(cand) == 0 {
			break
		}
		sib := ops[cand[r.Intn(len(cand))]]
		sib.Attrs = []string{sib.Attrs[r.Intn(len(sib.Attrs))]}
		sib.Fresh = false // same pattern object for element patterns: the rules share one table entry
		if sib.K == KAllowAttrs {
			sib.NoAttrs = false
			if o.NoURLValRe && genRewritten[sib.Attrs[0]] {
				sib.Re = ""
			} else {
				sib.Re = gen.ValLib[r.Intn(6)].Re
			}
		} else {
			switch r.Intn(3) {
			case 0:
				sib.Matcher, sib.Re, sib.Enum, sib.Handler = "re", gen.Pick(r, []string{`^[a-z]+$`, `^[0-9]+(px|em|%)$`, `^#[0-9a-f]{3}$`}), nil, ""
			case 1:
				sib.Matcher, sib.Enum, sib.Re, sib.Handler = "enum", pickN(r, []string{"red", "blue", "left", "10px", "none", "bold"}, 1+r.Intn(2)), "", ""
			default:
				sib.Matcher, sib.Handler, sib.Re, sib.Enum = "handler", gen.Pick(r, []string{"short", "digits", "has-safe"}), "", nil
			}
		}
		ops = append(ops, sib)
	}
	// shuffle everything after the constructor: order of rule calls must not matter,
	// and the Spec replays switch-like calls in list order so the model follows.
	rest := ops[1:]
	r.Shuffle(len(rest), func(i, j int) { rest[i], rest[j] = rest[j], rest[i] })
return ops
}

// RandomStyleOp builds one AllowStyles call.
func RandomStyleOp(r *rand.Rand, pool, pats []string, o GenOpts) Op {
	props := pickN(r, genStyleProps, 1+r.Intn(3))
	op := Op{K: KAllowStyles, Attrs: props, Fresh: r.Intn(3) == 0}
	kinds := []string{"default", "re", "enum", "handler"}
	if o.NoDefaultCSS {
		kinds = kinds[1:]
	}
	switch gen.Pick(r, kinds) {
	case "re":
		op.Matcher, op.Re = "re", gen.Pick(r, []string{`^[a-z]+$`, `^[0-9]+(px|em|%)$`, `^#[0-9a-f]{3}$`, `red`, `^[a-z0-9 #%.,()-]*$`})
	case "enum":
		op.Matcher, op.Enum = "enum", pickN(r, []string{"red", "blue", "left", "RIGHT", "10px", "none", "a b", "bold"}, 1+r.Intn(3))
	case "handler":
		op.Matcher, op.Handler = "handler", gen.Pick(r, []string{"short", "digits", "never", "has-safe"})
	default:
		op.Matcher = "default"
	}
	switch s := r.Intn(20); {
	case s < 9:
		op.Scope, op.Names = "els", pickN(r, pool, 1+r.Intn(3))
	case s < 13:
		op.Scope, op.ElRe = "match", pats[r.Intn(len(pats))]
	default:
		op.Scope = "global"
	}
	return op
}
