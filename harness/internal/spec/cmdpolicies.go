package spec

// The harness's own transcription of the documented policies of the two
// bundled command-line tools (cmd/sanitise_ugc, cmd/sanitise_html_email).

const reEmailColor = `(?i)^(#[0-9a-fA-F]{1,6}|black|silver|gray|white|maroon|red|purple|fuchsia|green|lime|olive|yellow|navy|blue|teal|aqua|orange|aliceblue|antiquewhite|aquamarine|azure|beige|bisque|blanchedalmond|blueviolet|brown|burlywood|cadetblue|chartreuse|chocolate|coral|cornflowerblue|cornsilk|crimson|darkblue|darkcyan|darkgoldenrod|darkgray|darkgreen|darkgrey|darkkhaki|darkmagenta|darkolivegreen|darkorange|darkorchid|darkred|darksalmon|darkseagreen|darkslateblue|darkslategray|darkslategrey|darkturquoise|darkviolet|deeppink|deepskyblue|dimgray|dimgrey|dodgerblue|firebrick|floralwhite|forestgreen|gainsboro|ghostwhite|gold|goldenrod|greenyellow|grey|honeydew|hotpink|indianred|indigo|ivory|khaki|lavender|lavenderblush|lawngreen|lemonchiffon|lightblue|lightcoral|lightcyan|lightgoldenrodyellow|lightgray|lightgreen|lightgrey|lightpink|lightsalmon|lightseagreen|lightskyblue|lightslategray|lightslategrey|lightsteelblue|lightyellow|limegreen|linen|mediumaquamarine|mediumblue|mediumorchid|mediumpurple|mediumseagreen|mediumslateblue|mediumspringgreen|mediumturquoise|mediumvioletred|midnightblue|mintcream|mistyrose|moccasin|navajowhite|oldlace|olivedrab|orangered|orchid|palegoldenrod|palegreen|paleturquoise|palevioletred|papayawhip|peachpuff|peru|pink|plum|powderblue|rosybrown|royalblue|saddlebrown|salmon|sandybrown|seagreen|seashell|sienna|skyblue|slateblue|slategray|slategrey|snow|springgreen|steelblue|tan|thistle|tomato|turquoise|violet|wheat|whitesmoke|yellowgreen|rebeccapurple)$`
const reEmailButtonType = `(?i)^[a-zA-Z][a-zA-Z-]{1,30}[a-zA-Z]$`
const reEmailStyleType = `(?i)^text\/css$`

func linkHardening() []Op {
	return []Op{sw(SwNoFollow, true), sw(SwNoFollowFQ, true), sw(SwTargetBlank, true)}
}

// CmdUGCOps: UGC policy + nofollow on all links + target=_blank on external links.
func CmdUGCOps() []Op { return append([]Op{{K: KUGC}}, linkHardening()...) }

// CmdHTMLEmailOps: UGC + document structure + style attribute + obsolete
// presentational attributes + class + data-URI images + link hardening.
func CmdHTMLEmailOps() []Op {
	ops := []Op{{K: KUGC},
		{K: KAllowElements, Names: []string{"html", "head", "body", "title"}},
		attrs(reEmailStyleType, "els", []string{"style"}, "type"),
		attrs("", "global", nil, "style"),
		{K: KAllowElements, Names: []string{"font", "main", "nav", "header", "footer", "kbd", "legend"}},
		attrs(reEmailButtonType, "els", []string{"button"}, "type"),
		attrs(reEmailColor, "els", []string{"basefont", "font", "hr"}, "bgcolor", "color"),
		attrs(ReInteger, "els", []string{"img", "table"}, "border"),
		attrs(ReInteger, "els", []string{"table"}, "cellpadding", "cellspacing"),
		{K: KStyling},
		{K: KDataURIImages},
	}
	return append(ops, linkHardening()...)
}
