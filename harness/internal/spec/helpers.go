package spec

import "verif/harness/internal/gen"

// The harness's own transcription of the documented helper policies and of
// UGCPolicy (from the comments in helpers.go / policies.go). This is the
// independent vocabulary table C04 judges against; it is deliberately not
// derived from the implementation at run time.

// Documented value patterns (own copies).
const (
	ReCellAlign         = `(?i)^(center|justify|left|right|char)$`
	ReCellVerticalAlign = `(?i)^(baseline|bottom|middle|top)$`
	ReDirection         = `(?i)^(rtl|ltr)$`
	ReImageAlign        = `(?i)^(left|right|top|texttop|middle|absmiddle|baseline|bottom|absbottom)$`
	ReInteger           = `^[0-9]+$`
	ReISO8601           = `^[0-9]{4}(-[0-9]{2}(-[0-9]{2}([ T][0-9]{2}(:[0-9]{2}){1,2}(\.[0-9]{1,6})?Z?([\+-][0-9]{2}:[0-9]{2})?)?)?)?$`
	ReListType          = `(?i)^(circle|disc|square|a|A|i|I|1)$`
	ReSpaceSepTokens    = `^([\s\p{L}\p{N}_-]+)$`
	ReNumber            = `^[-+]?[0-9]*\.?[0-9]+([eE][-+]?[0-9]+)?$`
	ReNumberOrPercent   = `^[0-9]+[%]?$`
	ReParagraph         = `^[\p{L}\p{N}\s\-_',\[\]!\./\\\(\)]*$`
	ReLang              = `[a-zA-Z]{2,20}`
	ReID                = `[a-zA-Z0-9\:\-_\.]+`
	ReOpen              = `(?i)^(|open)$`
	ReMapName           = `^([\p{L}\p{N}_-]+)$`
	ReCoords            = `^([0-9]+,)+[0-9]+$`
	ReShape             = `(?i)^(default|circle|rect|poly)$`
	ReUsemap            = `(?i)^#[\p{L}\p{N}_-]+$`
	ReScope             = `(?i)(?:row|col)(?:group)?`
	ReNowrap            = `(?i)|nowrap`
)

func attrs(re string, scope string, els []string, as ...string) Op {
	return Op{K: KAllowAttrs, Attrs: as, Re: re, Scope: scope, Names: els}
}

func sw(name string, b bool) Op { return Op{K: KSwitch, Names: []string{name}, B: b} }

// ExpandHelper expands a convenience helper into primitive ops per its doc
// comment.
func ExpandHelper(o Op) []Op {
	switch o.K {
	case KStdURLs:
		return []Op{sw(SwParseable, true), sw(SwRelative, true), {K: KSchemes, Names: []string{"mailto", "http", "https"}}, sw(SwNoFollow, true)}
	case KStdAttrs:
		return []Op{
			attrs(ReDirection, "global", nil, "dir"),
			attrs(ReLang, "global", nil, "lang"),
			attrs(ReID, "global", nil, "id"),
			attrs(ReParagraph, "global", nil, "title"),
		}
	case KStyling:
		return []Op{attrs(ReSpaceSepTokens, "global", nil, "class")}
	case KImages:
		out := []Op{
			attrs(ReImageAlign, "els", []string{"img"}, "align"),
			attrs(ReParagraph, "els", []string{"img"}, "alt"),
			attrs(ReNumberOrPercent, "els", []string{"img"}, "height", "width"),
		}
		out = append(out, ExpandHelper(Op{K: KStdURLs})...)
		return append(out, attrs("", "els", []string{"img"}, "src"))
	case KDataURIImages:
		return []Op{sw(SwParseable, true), {K: KSchemeCustom, Names: []string{"data"}, Check: "data-image"}}
	case KLists:
		return []Op{
			attrs(ReListType, "els", []string{"ol", "ul"}, "type"),
			attrs(ReListType, "els", []string{"li"}, "type"),
			attrs(ReInteger, "els", []string{"li"}, "value"),
			{K: KAllowElements, Names: []string{"dl", "dt", "dd"}},
		}
	case KTables:
		return []Op{
			attrs(ReNumberOrPercent, "els", []string{"table"}, "height", "width"),
			attrs(ReParagraph, "els", []string{"table"}, "summary"),
			{K: KAllowElements, Names: []string{"caption"}},
			attrs(ReCellAlign, "els", []string{"col", "colgroup"}, "align"),
			attrs(ReNumberOrPercent, "els", []string{"col", "colgroup"}, "height", "width"),
			attrs(ReInteger, "els", []string{"colgroup", "col"}, "span"),
			attrs(ReCellVerticalAlign, "els", []string{"col", "colgroup"}, "valign"),
			attrs(ReCellAlign, "els", []string{"thead", "tr"}, "align"),
			attrs(ReCellVerticalAlign, "els", []string{"thead", "tr"}, "valign"),
			attrs(ReParagraph, "els", []string{"td", "th"}, "abbr"),
			attrs(ReCellAlign, "els", []string{"td", "th"}, "align"),
			attrs(ReInteger, "els", []string{"td", "th"}, "colspan", "rowspan"),
			attrs(ReSpaceSepTokens, "els", []string{"td", "th"}, "headers"),
			attrs(ReNumberOrPercent, "els", []string{"td", "th"}, "height", "width"),
			attrs(ReScope, "els", []string{"td", "th"}, "scope"),
			attrs(ReCellVerticalAlign, "els", []string{"td", "th"}, "valign"),
			attrs(ReNowrap, "els", []string{"td", "th"}, "nowrap"),
			attrs(ReCellAlign, "els", []string{"tbody", "tfoot"}, "align"),
			attrs(ReCellVerticalAlign, "els", []string{"tbody", "tfoot"}, "valign"),
		}
	case KIFrames:
		return []Op{attrs("", "els", []string{"iframe"}, "sandbox"), {K: KSandbox, Ints: o.Ints}}
	}
	panic("ExpandHelper: unknown op " + o.K)
}

// UGCOps is the documented UGC vocabulary as an op list on top of NewPolicy.
func UGCOps() []Op {
	els := func(n ...string) Op { return Op{K: KAllowElements, Names: n} }
	return []Op{
		{K: KNew},
		{K: KStdAttrs},
		{K: KStdURLs},
		els("article", "aside"),
		attrs(ReOpen, "els", []string{"details"}, "open"),
		els("figure"), els("section"), els("summary"),
		els("h1", "h2", "h3", "h4", "h5", "h6"),
		els("hgroup"),
		attrs("", "els", []string{"blockquote"}, "cite"),
		els("br", "div", "hr", "p", "span", "wbr"),
		attrs("", "els", []string{"a"}, "href"),
		attrs(ReMapName, "els", []string{"map"}, "name"),
		attrs(ReParagraph, "els", []string{"area"}, "alt"),
		attrs(ReCoords, "els", []string{"area"}, "coords"),
		attrs("", "els", []string{"area"}, "href"),
		attrs(ReSpaceSepTokens, "els", []string{"area"}, "rel"),
		attrs(ReShape, "els", []string{"area"}, "shape"),
		attrs(ReUsemap, "els", []string{"img"}, "usemap"),
		els("abbr", "acronym", "cite", "code", "dfn", "em", "figcaption", "mark", "s", "samp", "strong", "sub", "sup", "var"),
		attrs("", "els", []string{"q"}, "cite"),
		attrs(ReISO8601, "els", []string{"time"}, "datetime"),
		els("b", "i", "pre", "small", "strike", "tt", "u"),
		attrs(ReDirection, "els", []string{"bdi", "bdo"}, "dir"),
		els("rp", "rt", "ruby"),
		attrs(ReParagraph, "els", []string{"del", "ins"}, "cite"),
		attrs(ReISO8601, "els", []string{"del", "ins"}, "datetime"),
		{K: KLists},
		{K: KTables},
		attrs(ReNumber, "els", []string{"meter"}, "value", "min", "max", "low", "high", "optimum"),
		attrs(ReNumber, "els", []string{"progress"}, "value", "max"),
		{K: KImages},
	}
}

// Sample values for the documented helper patterns, so that the generators can write
// attribute values these rules accept (and reject): conforming documents over the shipped
// policies would otherwise only ever use unpatterned attributes.
func init() {
	gen.RegisterPool(ReCellAlign, []string{"center", "LEFT", "char", "justify"}, []string{"middle", "", "left;"})
	gen.RegisterPool(ReCellVerticalAlign, []string{"top", "MIDDLE", "baseline"}, []string{"left", ""})
	gen.RegisterPool(ReDirection, []string{"rtl", "LTR"}, []string{"up", "ltr "})
	gen.RegisterPool(ReImageAlign, []string{"left", "absmiddle", "TEXTTOP", "bottom"}, []string{"center", ""})
	gen.RegisterPool(ReInteger, []string{"0", "42", "007"}, []string{"-1", "1.5", "", "4x"})
	gen.RegisterPool(ReISO8601, []string{"1997", "1997-07", "1997-07-16", "1997-07-16T19:20+01:00", "1997-07-16T19:20:30.45+01:00", "2024-02-29 23:59:59Z"}, []string{"97", "1997-7-16", "1997-07-16T19:20:30<45", "yesterday"})
	gen.RegisterPool(ReListType, []string{"circle", "disc", "a", "I", "1"}, []string{"2", "roman", ""})
	gen.RegisterPool(ReNumber, []string{"0", "1.5", "-1", "+2e10", ".5"}, []string{"1,5", "", "e", "1px"})
	gen.RegisterPool(ReNumberOrPercent, []string{"100", "100%", "0"}, []string{"-1", "1.5%", "%", "10px"})
	gen.RegisterPool(ReParagraph, []string{" lead", "trail ", " a b ", "Hello, world!", "it's [ok] (really)", "", "a/b\\c_d-e."}, []string{"a<b", `say "x"`, "a=b", "a&b", "a;b"})
	gen.RegisterPool(ReLang, []string{"en", "de-DE", "zh-Hant"}, []string{"e", "1", ""})
	gen.RegisterPool(ReID, []string{"a1", "x:y", "sec-2.1_b"}, []string{"", "é", " "})
	gen.RegisterPool(ReOpen, []string{"", "open", "OPEN"}, []string{"yes", "opened"})
	gen.RegisterPool(ReMapName, []string{"map1", "m_a-p", "été", "карта"}, []string{"", "a b", "#m"})
	gen.RegisterPool(ReCoords, []string{"1,2", "0,0,10,10", "5,5,3"}, []string{"1", "1,", "a,b", "1, 2"})
	gen.RegisterPool(ReShape, []string{"rect", "CIRCLE", "poly", "default"}, []string{"square", ""})
	gen.RegisterPool(ReUsemap, []string{"#map1", "#M_a-p", "#été", "#карта1"}, []string{"map1", "#", "#a b"})
	gen.RegisterPool(ReScope, []string{"row", "col", "rowgroup", "COLGROUP"}, []string{"", "x", "ro"})
	gen.RegisterPool(ReNowrap, []string{"", "nowrap"}, nil)
	gen.RegisterPool(reEmailColor, []string{"#fff", "#A1B2C3", "red", "RebeccaPurple", "#f", "#ab", "#abcd", "#abcde"}, []string{"#ggg", "", "rgb(1,2,3)", "reddish"})
	gen.RegisterPool(reEmailButtonType, []string{"submit", "button", "re-set"}, []string{"a", "1submit", ""})
	gen.RegisterPool(reEmailStyleType, []string{"text/css", "TEXT/CSS"}, []string{"text/javascript", ""})
}
