package core

import (
	"bytes"
	"encoding/json"
	"fmt"
	"os"
	"os/exec"
	"strconv"
	"sync/atomic"
	"syscall"
	"time"
)

// Worker children: a monitor may run part of its workload in a child process
// (same binary, `-child <mode> args...`) so that a process-fatal event
// (runtime "concurrent map" throw, stack overflow, CPU-limit kill) is an
// observation of the parent instead of the end of the monitor.

type Export struct {
	Evals    int64                  `json:"evals"`
	Keys     []uint64               `json:"keys"`
	Skipped  map[string]int64       `json:"skipped"`
	Observed map[string]int64       `json:"observed"`
	Samples  []interface{}          `json:"samples"`
	Viols    []*Violation           `json:"viols"`
	Inconcl  []string               `json:"inconcl"`
	Extra    map[string]interface{} `json:"extra"`
}

// ExportState serialises what a child's Ctx has accumulated.
func (c *Ctx) ExportState() []byte {
	c.mu.Lock()
	defer c.mu.Unlock()
	e := Export{Evals: atomic.LoadInt64(&c.evals), Skipped: c.skipped, Observed: c.observed, Samples: c.samples, Inconcl: c.inconcl, Extra: c.extra}
	for i := range c.shards {
		for k := range c.shards[i].m {
			e.Keys = append(e.Keys, k)
		}
	}
	for _, sig := range c.violOrd {
		e.Viols = append(e.Viols, c.viols[sig])
	}
	for _, v := range c.knownHit {
		e.Viols = append(e.Viols, v)
	}
	b, _ := json.Marshal(e)
	return b
}

// MergeState folds a child's export into the parent Ctx.
func (c *Ctx) MergeState(data []byte) error {
	var e Export
	if err := json.Unmarshal(data, &e); err != nil {
		return err
	}
	atomic.AddInt64(&c.evals, e.Evals)
	cs := &Case{Ctx: c}
	for _, k := range e.Keys {
		cs.Nontrivial(k)
	}
	c.mu.Lock()
	for k, v := range e.Skipped {
		c.skipped[k] += v
	}
	for k, v := range e.Observed {
		c.observed[k] += v
	}
	for _, s := range e.Samples {
		if len(c.samples) < 24 {
			c.samples = append(c.samples, s)
		}
	}
	for k, v := range e.Extra {
		c.extra[k] = v
	}
	c.inconcl = append(c.inconcl, e.Inconcl...)
	c.mu.Unlock()
	for _, v := range e.Viols {
		vc := &Case{Ctx: c, Stream: v.Stream, Index: v.Index}
		for i := 0; i < v.Count; i++ {
			vc.Violate(v.Signature, v.Message, v.Witness)
			if i > 2 { // keep counts roughly without looping long
				c.mu.Lock()
				if t, ok := c.viols[v.Signature]; ok {
					t.Count += v.Count - i - 1
				} else if t, ok := c.knownHit[v.Signature]; ok {
					t.Count += v.Count - i - 1
				}
				c.mu.Unlock()
				break
			}
		}
	}
	return nil
}

type ChildRun struct {
	Exit      int
	Signal    string // "" or the signal that killed it
	CPUKilled bool   // killed by the CPU rlimit (SIGXCPU / SIGKILL after RLIMIT_CPU)
	TimedOut  bool   // the wall-clock watchdog fired: inconclusive, never a violation
	Stdout    []byte
	Stderr    string
	UserCPU   time.Duration
}

// RunChild starts this binary in child mode. cpuSec > 0 sets RLIMIT_CPU in the
// child (via the VMON_RLIMIT_CPU environment variable read by ApplyChildLimits);
// wallSec is a generous wall-clock watchdog.
func RunChild(mode string, args []string, cpuSec, wallSec int, extraEnv ...string) ChildRun {
	self, err := os.Executable()
	if err != nil {
		return ChildRun{Exit: -1, Stderr: err.Error()}
	}
	cmd := exec.Command(self, append([]string{"-verif", VerifDir, "-child", mode}, args...)...)
	cmd.Env = append(os.Environ(), extraEnv...)
	if cpuSec > 0 {
		cmd.Env = append(cmd.Env, "VMON_RLIMIT_CPU="+strconv.Itoa(cpuSec))
	}
	var so, se bytes.Buffer
	cmd.Stdout, cmd.Stderr = &so, &se
	if err := cmd.Start(); err != nil {
		return ChildRun{Exit: -1, Stderr: err.Error()}
	}
	done := make(chan error, 1)
	go func() { done <- cmd.Wait() }()
	var res ChildRun
	select {
	case err = <-done:
	case <-time.After(time.Duration(wallSec) * time.Second):
		cmd.Process.Signal(syscall.SIGQUIT)
		select {
		case err = <-done:
		case <-time.After(10 * time.Second):
			cmd.Process.Kill()
			err = <-done
		}
		res.TimedOut = true
	}
	res.Stdout, res.Stderr = so.Bytes(), se.String()
	if cmd.ProcessState != nil {
		res.UserCPU = cmd.ProcessState.UserTime()
		res.Exit = cmd.ProcessState.ExitCode()
		if ws, ok := cmd.ProcessState.Sys().(syscall.WaitStatus); ok && ws.Signaled() {
			res.Signal = ws.Signal().String()
			if (ws.Signal() == syscall.SIGXCPU || ws.Signal() == syscall.SIGKILL) && cpuSec > 0 && !res.TimedOut {
				res.CPUKilled = true
			}
		}
	}
	if err != nil && res.Exit == 0 {
		res.Exit = -1
	}
	return res
}

// ApplyChildLimits is called first thing in child mode.
func ApplyChildLimits() {
	if s := os.Getenv("VMON_RLIMIT_CPU"); s != "" {
		if n, err := strconv.Atoi(s); err == nil && n > 0 {
			lim := syscall.Rlimit{Cur: uint64(n), Max: uint64(n + 2)}
			if err := syscall.Setrlimit(syscall.RLIMIT_CPU, &lim); err != nil {
				fmt.Fprintln(os.Stderr, "vmon child: cannot set RLIMIT_CPU:", err)
			}
		}
	}
}
