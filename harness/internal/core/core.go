// Package core is the monitor runtime: deterministic per-case PRNGs, a parallel
// case runner, evidence accounting, known-finding matching, replay files and
// the three-valued verdict (held / violated / inconclusive).
package core

import (
	"bufio"
	"encoding/base64"
	"encoding/json"
	"fmt"
	"hash/fnv"
	"math/rand"
	"os"
	"path/filepath"
	"runtime"
	"runtime/debug"
	"sort"
	"strings"
	"sync"
	"sync/atomic"
	"time"
	"unicode/utf8"
)

const (
	ExitHeld         = 0
	ExitViolated     = 1
	ExitInconclusive = 2
)

// OutDir is where evidence and replay files go: VerifDir, unless VERIF_OUT is set (runs
// against a scratch copy of the repository must not overwrite the real evidence).
func OutDir() string {
	if d := os.Getenv("VERIF_OUT"); d != "" {
		return d
	}
	return VerifDir
}

// VerifDir is where MANIFEST.json, evidence/, replay/ and KNOWN_FINDINGS.txt live.
var VerifDir = "/verif"

type Violation struct {
	Signature string                 `json:"signature"`
	Message   string                 `json:"message"`
	Stream    string                 `json:"stream"`
	Index     int                    `json:"index"`
	Witness   map[string]interface{} `json:"witness"`
	Count     int                    `json:"count"`
}

type Ctx struct {
	Prop  string
	Tier  string
	Seed  int64
	Level string // evidence level
	Rule  string // how cases are generated / what is non-trivial

	// replay of exactly one case
	ReplayStream string
	ReplayIndex  int
	Replaying    bool

	Workers int

	start time.Time

	evals    int64
	nontriv  int64
	mu       sync.Mutex
	shards   [64]distinctShard
	distinct int64
	satur    bool
	skipped  map[string]int64
	observed map[string]int64
	samples  []interface{}
	sampleK  map[string]int
	viols    map[string]*Violation
	violOrd  []string
	knownHit map[string]*Violation
	known    map[string]string // signature -> description
	inconcl  []string
	assump   []string
	extra    map[string]interface{}
	floors   map[string]int64 // observed-counter floors; below => inconclusive
	minNT    int64
	exhaust  bool
}

type distinctShard struct {
	mu sync.Mutex
	m  map[uint64]struct{}
}

const distinctCap = 6_000_000

func NewCtx(prop, tier string, seed int64) *Ctx {
	c := &Ctx{Prop: prop, Tier: tier, Seed: seed, Level: "exploration",
		skipped: map[string]int64{}, observed: map[string]int64{}, sampleK: map[string]int{},
		viols: map[string]*Violation{}, knownHit: map[string]*Violation{}, known: map[string]string{},
		extra: map[string]interface{}{}, floors: map[string]int64{}, start: time.Now(),
		Workers: runtime.GOMAXPROCS(0)}
	for i := range c.shards {
		c.shards[i].m = map[uint64]struct{}{}
	}
	c.loadKnown()
	return c
}

func (c *Ctx) Quick() bool { return c.Tier != "thorough" }

// N picks the tier's fixed case count.
func (c *Ctx) N(quick, thorough int) int {
	if c.Quick() {
		return quick
	}
	return thorough
}

func (c *Ctx) loadKnown() {
	f, err := os.Open(filepath.Join(VerifDir, "KNOWN_FINDINGS.txt"))
	if err != nil {
		return
	}
	defer f.Close()
	sc := bufio.NewScanner(f)
	sc.Buffer(make([]byte, 1<<20), 1<<20)
	for sc.Scan() {
		line := strings.TrimSpace(sc.Text())
		if !strings.HasPrefix(line, "known:") {
			continue // "fixed:" entries and comments suppress nothing
		}
		fields := strings.Fields(strings.TrimPrefix(line, "known:"))
		var prop, sig string
		rest := []string{}
		for _, f := range fields {
			switch {
			case strings.HasPrefix(f, "property=") && prop == "":
				prop = strings.TrimPrefix(f, "property=")
			case strings.HasPrefix(f, "signature=") && sig == "":
				sig = strings.TrimPrefix(f, "signature=")
			default:
				rest = append(rest, f)
			}
		}
		if prop == c.Prop && sig != "" {
			c.known[sig] = strings.Join(rest, " ")
		}
	}
}

// ---------------------------------------------------------------------------

type Case struct {
	Ctx    *Ctx
	Stream string
	Index  int
	R      *rand.Rand
}

func caseSeed(seed int64, prop, stream string, idx int) int64 {
	h := fnv.New64a()
	fmt.Fprintf(h, "%d|%s|%s|%d", seed, prop, stream, idx)
	return int64(h.Sum64())
}

// StreamRand returns a PRNG for per-stream (not per-case) decisions.
func (c *Ctx) StreamRand(stream string) *rand.Rand {
	return rand.New(rand.NewSource(caseSeed(c.Seed, c.Prop, "stream:"+stream, -1)))
}

// Run executes fn for indices 0..n-1 of the named stream on all cores. Every
// case gets a PRNG that depends only on (seed, property, stream, index), so a
// case can be replayed alone.
func (c *Ctx) Run(stream string, n int, fn func(cs *Case)) {
	if c.Replaying {
		if stream != c.ReplayStream {
			return
		}
		c.runOne(stream, c.ReplayIndex, fn)
		return
	}
	var next int64 = -1
	var wg sync.WaitGroup
	w := c.Workers
	if w > n {
		w = n
	}
	if w < 1 {
		w = 1
	}
	for i := 0; i < w; i++ {
		wg.Add(1)
		go func() {
			defer wg.Done()
			for {
				idx := int(atomic.AddInt64(&next, 1))
				if idx >= n {
					return
				}
				c.runOne(stream, idx, fn)
			}
		}()
	}
	wg.Wait()
}

// RunSeq is Run on a single goroutine (needed where the monitor measures
// process-wide quantities).
func (c *Ctx) RunSeq(stream string, n int, fn func(cs *Case)) {
	if c.Replaying {
		if stream != c.ReplayStream {
			return
		}
		c.runOne(stream, c.ReplayIndex, fn)
		return
	}
	for i := 0; i < n; i++ {
		c.runOne(stream, i, fn)
	}
}

// PanicIsViolation lets a monitor (C14) treat a panic inside a case as a
// violation instead of an inconclusive run.
var PanicHandler func(cs *Case, r interface{}, stack string)

func (c *Ctx) runOne(stream string, idx int, fn func(cs *Case)) {
	cs := &Case{Ctx: c, Stream: stream, Index: idx,
		R: rand.New(rand.NewSource(caseSeed(c.Seed, c.Prop, stream, idx)))}
	defer func() {
		if r := recover(); r != nil {
			st := string(debug.Stack())
			if PanicHandler != nil {
				PanicHandler(cs, r, st)
				return
			}
			c.Inconclusive(fmt.Sprintf("panic in case %s/%d: %v\n%s", stream, idx, r, trimStack(st)))
		}
	}()
	fn(cs)
}

func trimStack(s string) string {
	lines := strings.Split(s, "\n")
	if len(lines) > 40 {
		lines = lines[:40]
	}
	return strings.Join(lines, "\n")
}

// Eval counts one evaluation (one execution of the system under the oracle).
func (cs *Case) Eval() { atomic.AddInt64(&cs.Ctx.evals, 1) }

func (cs *Case) EvalN(n int) { atomic.AddInt64(&cs.Ctx.evals, int64(n)) }

func Hash(parts ...string) uint64 {
	h := fnv.New64a()
	for _, p := range parts {
		h.Write([]byte(p))
		h.Write([]byte{0})
	}
	return h.Sum64()
}

// Nontrivial records a case that is non-trivial by the monitor's rule; key is
// a hash identifying the case so that distinct ones can be counted.
func (cs *Case) Nontrivial(key uint64) {
	c := cs.Ctx
	atomic.AddInt64(&c.nontriv, 1)
	if atomic.LoadInt64(&c.distinct) >= distinctCap {
		c.satur = true
		return
	}
	sh := &c.shards[key&63]
	sh.mu.Lock()
	if _, ok := sh.m[key]; !ok {
		sh.m[key] = struct{}{}
		atomic.AddInt64(&c.distinct, 1)
	}
	sh.mu.Unlock()
}

func (cs *Case) Skip(reason string) {
	c := cs.Ctx
	c.mu.Lock()
	c.skipped[reason]++
	c.mu.Unlock()
}

// Count adds to a named "what the monitor saw" counter.
func (cs *Case) Count(key string, n int) { cs.Ctx.Count(key, n) }

func (c *Ctx) Count(key string, n int) {
	c.mu.Lock()
	c.observed[key] += int64(n)
	c.mu.Unlock()
}

// LocalCounts batches counters to cut lock traffic.
type LocalCounts map[string]int

func (cs *Case) Flush(l LocalCounts) {
	c := cs.Ctx
	c.mu.Lock()
	for k, v := range l {
		c.observed[k] += int64(v)
	}
	c.mu.Unlock()
}

// Sample stores up to 3 samples per kind (kind keeps the sample list varied).
func (cs *Case) Sample(kind string, v interface{}) {
	c := cs.Ctx
	c.mu.Lock()
	if c.sampleK[kind] < 3 && len(c.samples) < 24 {
		c.sampleK[kind]++
		c.samples = append(c.samples, map[string]interface{}{"kind": kind, "stream": cs.Stream, "index": cs.Index, "case": v})
	}
	c.mu.Unlock()
}

func (c *Ctx) WantSample(kind string) bool {
	c.mu.Lock()
	defer c.mu.Unlock()
	return c.sampleK[kind] < 3 && len(c.samples) < 24
}

// Violate reports a refuting observation. sig is the narrow signature of
// Appendix B of DESIGN.md; a signature listed in KNOWN_FINDINGS.txt is a
// known finding, anything else fails the run.
func (cs *Case) Violate(sig, msg string, witness map[string]interface{}) {
	c := cs.Ctx
	c.mu.Lock()
	defer c.mu.Unlock()
	tgt := c.viols
	if _, ok := c.known[sig]; ok {
		tgt = c.knownHit
	}
	if v, ok := tgt[sig]; ok {
		v.Count++
		return
	}
	v := &Violation{Signature: sig, Message: msg, Stream: cs.Stream, Index: cs.Index, Witness: witness, Count: 1}
	tgt[sig] = v
	if _, ok := c.known[sig]; !ok {
		c.violOrd = append(c.violOrd, sig)
	}
}

func (c *Ctx) Inconclusive(why string) {
	c.mu.Lock()
	if len(c.inconcl) < 20 {
		c.inconcl = append(c.inconcl, why)
	}
	c.mu.Unlock()
}

func (c *Ctx) Assume(s ...string) { c.assump = append(c.assump, s...) }

func (c *Ctx) Extra(k string, v interface{}) {
	c.mu.Lock()
	c.extra[k] = v
	c.mu.Unlock()
}

func (c *Ctx) ExtraGet(k string) interface{} {
	c.mu.Lock()
	defer c.mu.Unlock()
	return c.extra[k]
}

// ExtraMax keeps the maximum of a numeric extra.
func (c *Ctx) ExtraMax(k string, v int64) {
	c.mu.Lock()
	defer c.mu.Unlock()
	switch old := c.extra[k].(type) {
	case int64:
		if old >= v {
			return
		}
	case float64:
		if int64(old) >= v {
			return
		}
	}
	c.extra[k] = v
}

// Floor: an observed counter that must reach min for the run to be conclusive
// (e.g. "comment writes faulted" in C16). Ignored while replaying.
func (c *Ctx) Floor(counter string, min int64) { c.floors[counter] = min }

func (c *Ctx) MinNontrivial(n int64) { c.minNT = n }

func (c *Ctx) Exhaustive(b bool) { c.exhaust = b }

func (c *Ctx) Observed(key string) int64 {
	c.mu.Lock()
	defer c.mu.Unlock()
	return c.observed[key]
}

// ---------------------------------------------------------------------------

// B64 renders bytes for witnesses: printable strings stay readable.
func Show(s string) interface{} {
	if utf8.ValidString(s) && !strings.ContainsAny(s, "\x00") {
		return s
	}
	return map[string]string{"base64": base64.StdEncoding.EncodeToString([]byte(s))}
}

func Clip(s string, n int) string {
	if len(s) <= n {
		return s
	}
	return s[:n] + fmt.Sprintf("…(+%d bytes)", len(s)-n)
}

type evidence struct {
	PropertyID  string                 `json:"property_id"`
	Tier        string                 `json:"tier"`
	Seed        int64                  `json:"seed"`
	Level       string                 `json:"level"`
	Coverage    map[string]interface{} `json:"coverage"`
	Assumptions []string               `json:"assumptions"`
	WallS       float64                `json:"wall_s"`
	Violations  int                    `json:"violations"`
	Verdict     string                 `json:"verdict"`
	Known       []string               `json:"known_findings_seen,omitempty"`
	Inconcl     []string               `json:"inconclusive_reasons,omitempty"`
}

// Finish writes evidence, replay files, prints verdict lines and returns the
// exit code.
func (c *Ctx) Finish() int {
	c.mu.Lock()
	defer c.mu.Unlock()

	if !c.Replaying {
		if c.distinct < c.minNT {
			c.inconcl = append(c.inconcl, fmt.Sprintf("only %d distinct non-trivial cases observed, floor is %d", c.distinct, c.minNT))
		}
		keys := make([]string, 0, len(c.floors))
		for k := range c.floors {
			keys = append(keys, k)
		}
		sort.Strings(keys)
		for _, k := range keys {
			if c.observed[k] < c.floors[k] {
				c.inconcl = append(c.inconcl, fmt.Sprintf("monitor observed %q only %d times, floor is %d", k, c.observed[k], c.floors[k]))
			}
		}
	}

	verdict := "held"
	code := ExitHeld
	if len(c.inconcl) > 0 {
		verdict = "inconclusive"
		code = ExitInconclusive
	}
	if len(c.viols) > 0 {
		verdict = "violated"
		code = ExitViolated
	}

	// known findings
	knownLines := []string{}
	ks := make([]string, 0, len(c.knownHit))
	for k := range c.knownHit {
		ks = append(ks, k)
	}
	sort.Strings(ks)
	for _, k := range ks {
		line := fmt.Sprintf("KNOWN-FINDING: property=%s signature=%s %s (seen %d times this run)", c.Prop, k, c.known[k], c.knownHit[k].Count)
		fmt.Println(line)
		knownLines = append(knownLines, line)
	}

	// violations -> replay files
	nshow := 0
	for _, sig := range c.violOrd {
		v := c.viols[sig]
		path := c.writeReplay(v)
		if nshow < 25 {
			fmt.Printf("VIOLATION property=%s replay=%s\n", c.Prop, path)
			fmt.Printf("  signature=%s count=%d\n  %s\n", v.Signature, v.Count, Clip(v.Message, 600))
		}
		nshow++
	}
	if nshow > 25 {
		fmt.Printf("  (%d further violation signatures not printed; see replay dir)\n", nshow-25)
	}
	for _, w := range c.inconcl {
		fmt.Printf("INCONCLUSIVE property=%s: %s\n", c.Prop, Clip(w, 3000))
	}

	if c.Replaying {
		fmt.Printf("replay property=%s stream=%s index=%d verdict=%s\n", c.Prop, c.ReplayStream, c.ReplayIndex, verdict)
		return code
	}

	cov := map[string]interface{}{}
	for k, v := range c.extra {
		cov[k] = v
	}
	cov["evaluations"] = c.evals
	cov["distinct_nontrivial"] = c.distinct
	cov["nontrivial_total"] = c.nontriv
	rule := c.Rule
	if c.satur {
		rule += fmt.Sprintf(" [distinct counting saturated at %d: the count is a lower bound]", distinctCap)
	}
	cov["rule"] = rule
	cov["exhaustive"] = c.exhaust
	if len(c.samples) == 0 {
		c.samples = append(c.samples, "no sample recorded")
	}
	cov["samples"] = c.samples
	cov["skipped_by_reason"] = c.skipped
	cov["observed"] = c.observed
	if len(c.viols) > 0 {
		vs := []interface{}{}
		for i, sig := range c.violOrd {
			if i >= 25 {
				break
			}
			v := c.viols[sig]
			vs = append(vs, map[string]interface{}{"signature": v.Signature, "message": Clip(v.Message, 400), "count": v.Count})
		}
		cov["violation_signatures"] = vs
	}
	ev := evidence{PropertyID: c.Prop, Tier: c.Tier, Seed: c.Seed, Level: c.Level, Coverage: cov,
		Assumptions: c.assump, WallS: time.Since(c.start).Seconds(), Violations: len(c.viols), Verdict: verdict,
		Known: knownLines, Inconcl: c.inconcl}
	if ev.Assumptions == nil {
		ev.Assumptions = []string{}
	}
	b, err := json.MarshalIndent(ev, "", " ")
	if err != nil {
		fmt.Println("cannot marshal evidence:", err)
		return ExitInconclusive
	}
	dir := filepath.Join(OutDir(), "evidence")
	os.MkdirAll(dir, 0o755)
	if err := os.WriteFile(filepath.Join(dir, c.Prop+".json"), append(b, '\n'), 0o644); err != nil {
		fmt.Println("cannot write evidence:", err)
		return ExitInconclusive
	}
	fmt.Printf("%s %s seed=%d verdict=%s evaluations=%d distinct_nontrivial=%d known_findings=%d wall=%.1fs\n",
		c.Prop, c.Tier, c.Seed, verdict, c.evals, c.distinct, len(c.knownHit), time.Since(c.start).Seconds())
	return code
}

type ReplayFile struct {
	Property  string                 `json:"property"`
	Seed      int64                  `json:"seed"`
	Tier      string                 `json:"tier"`
	Stream    string                 `json:"stream"`
	Index     int                    `json:"index"`
	Signature string                 `json:"signature"`
	Message   string                 `json:"message"`
	Witness   map[string]interface{} `json:"witness"`
	Count     int                    `json:"occurrences_in_run"`
	HowTo     string                 `json:"how_to_replay"`
}

func (c *Ctx) writeReplay(v *Violation) string {
	dir := filepath.Join(OutDir(), "replay", c.Prop)
	os.MkdirAll(dir, 0o755)
	name := fmt.Sprintf("%016x.json", Hash(v.Signature))
	path := filepath.Join(dir, name)
	rf := ReplayFile{Property: c.Prop, Seed: c.Seed, Tier: c.Tier, Stream: v.Stream, Index: v.Index,
		Signature: v.Signature, Message: v.Message, Witness: v.Witness, Count: v.Count,
		HowTo: "cd /verif && ./run.sh replay " + path}
	b, _ := json.MarshalIndent(rf, "", " ")
	os.WriteFile(path, append(b, '\n'), 0o644)
	return path
}

func LoadReplay(path string) (*ReplayFile, error) {
	b, err := os.ReadFile(path)
	if err != nil {
		return nil, err
	}
	var rf ReplayFile
	if err := json.Unmarshal(b, &rf); err != nil {
		return nil, err
	}
	return &rf, nil
}
