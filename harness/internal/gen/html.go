package gen

import (
	"fmt"
	"go/ast"
	"go/parser"
	"go/token"
	"math/rand"
	"os"
	"path/filepath"
	"strconv"
	"strings"
	"sync"
)

// Element vocabularies.
var (
	ElOrdinary = strings.Fields("p div span b i a em strong h1 h2 ul ol li table tr td th tbody thead blockquote q del ins pre code section article time details summary bdo map font center label form button select option textarea")
	ElVoid     = strings.Fields("br hr img input area link base source track embed col wbr meta param")
	ElRawText  = strings.Fields("textarea title xmp plaintext iframe noscript noembed noframes")
	ElSkip     = strings.Fields("object frameset frame nostyle iframe noscript title")
	ElForeign  = strings.Fields("svg math mtext mi mo mglyph foreignobject desc annotation-xml path g circle use animate set")
	ElCustom   = append(strings.Fields("my-x my-y x-foo x-bar-baz my- x-é my-é1 x-ü-y my-x2 amy-x my-widget my-widget2  x-foo_"), "my-"+strings.Repeat("a", 130)+"9", "x-"+strings.Repeat("b", 140)+"_", "my-x"+strings.Repeat("y", 126), strings.Repeat("a", 200))
	ElMedia    = strings.Fields("audio video picture canvas")
	ElDanger   = strings.Fields("script style")
	// ElAll: every element name of HTML (current and obsolete), MathML/SVG staples included.
	ElAll = strings.Fields(`a abbr acronym address applet area article aside audio b base basefont bdi bdo bgsound big blink blockquote body br button canvas caption center cite code col colgroup
command content data datalist dd del details dfn dialog dir div dl dt element em embed fieldset figcaption figure font footer form frame frameset h1 h2 h3 h4 h5 h6 head header hgroup hr html i
iframe image img input ins isindex kbd keygen label legend li link listing main map mark marquee math menu menuitem meta meter multicol nav nextid nobr noembed noframes noscript object ol optgroup
option output p param picture plaintext portal pre progress q rb rp rt rtc ruby s samp script search section select shadow slot small source spacer span strike strong style sub summary sup svg
table tbody td template textarea tfoot th thead time title tr track tt u ul var video wbr xmp mi mo mn ms mtext mglyph malignmark annotation-xml foreignobject desc g path circle rect use defs symbol
animate set a:b`)
	ElOdd = []string{"x:style", "svg:script", "o:style", "xml:script", "scr\xffipt", "sty\xffle", "\xffscript", "script\xff", "scr\u0130pt", "\u017fcript", "\u017ftyle", "t\u0130tle", "\u0130frame", "noscr\u0130pt", "a<b", "a\"b", "a=b", "x:y", "o:p", "isindex", "image", "keygen", "listing", "marquee", "template", "slot", "body", "html", "head", "frame", "applet", "bgsound", "basefont", "dialog", "menuitem", "rb", "rtc"}
)

// AttrVocab: attribute names documents draw from in addition to the policy's own.
var AttrVocab = strings.Fields(`id class title lang dir href src cite rel target alt width height align type value name style data-x data-foo-bar
data-xml-x data-xmlns-data-x data-xml-data-a data-Adata-b data-x;data-y data-- data--- data-xml data-Upper data-a;b data-adata-b;c data-xdata-xmly data-data- data- onclick onerror onload onmouseover xlink:href xmlns xmlns:xlink crossorigin sandbox srcset action formaction
background poster usemap datetime open colspan span valign nowrap scope coords shape summary abbr headers min max low high optimum
srcdoc http-equiv content charset download ping integrity is part slot autofocus contenteditable tabindex accesskey`)

var oddAttrNames = []string{`a"b`, `a'b`, "a<b", "a=b", "x/y", "\x00", "é", "on click", "STYLE", "HrEf", "data-ü", "🙂"}

// Node is a generated document tree node.
type Node struct {
	Name     string // "" for text, "#comment", "#doctype", "#cdata", "#pi", "#raw" (verbatim)
	Text     string
	Attrs    [][2]string
	Kids     []*Node
	SelfCl   bool
	NoEnd    bool // omit the end tag (truncation / unclosed)
	StrayEnd bool // emit only an end tag
}

// DocOpts controls NoisyDoc.
type DocOpts struct {
	Elements []string                                  // element names to draw from
	Attrs    func(r *rand.Rand, el string) [][2]string // attribute list for an element (decoded values)
	Text     func(r *rand.Rand) string                 // text node content (decoded)
	MaxDepth int
	MaxKids  int
	Noise    int  // 0 = canonical serialisation, 1..3 = increasingly hostile
	Extras   bool // comments, doctypes, CDATA, PIs, stray end tags
}

func RandomTree(r *rand.Rand, o DocOpts, depth int) []*Node {
	n := 1 + r.Intn(o.MaxKids)
	var out []*Node
	for i := 0; i < n; i++ {
		switch k := r.Intn(10); {
		case k < 3:
			out = append(out, &Node{Text: o.Text(r)})
		case k == 3 && o.Extras:
			switch r.Intn(6) {
			case 0:
				out = append(out, &Node{Name: "#comment", Text: Pick(r, []string{" c ", "", "-", "--", "[if IE]><script>alert(1)</script><![endif]", "><b>", "-->x", "!>", "x--!>y", "<!--"})})
			case 1:
				out = append(out, &Node{Name: "#doctype", Text: Pick(r, []string{"html", "html PUBLIC \"-//W3C//DTD\"", "html [<!ENTITY x \"<script>\">]", "<b>", ""})})
			case 2:
				out = append(out, &Node{Name: "#cdata", Text: Pick(r, []string{"x", "<script>alert(1)</script>", "]]", "><b>", ""})})
			case 3:
				out = append(out, &Node{Name: "#pi", Text: Pick(r, []string{"xml version=\"1.0\"", "php echo 1 ", "x><b>"})})
			case 4:
				out = append(out, &Node{Name: Pick(r, o.Elements), StrayEnd: true})
			default:
				out = append(out, &Node{Name: "#raw", Text: Pick(r, []string{"<", "</", "<!", "<?", "< b>", "</ b>", "<b", "<b x", "<b x=", "<b x='", "&", "&#", "&#x", "&amp", "<a href=\"", "</>", "<>", "<!-->", "<!--->", "<![CDATA[", "\x00", "<b/ >", "<//b>", "<b / x>"})})
			}
		default:
			el := Pick(r, o.Elements)
			nd := &Node{Name: el}
			if o.Attrs != nil {
				nd.Attrs = o.Attrs(r, el)
			}
			if depth < o.MaxDepth && r.Intn(3) > 0 {
				nd.Kids = RandomTree(r, o, depth+1)
			} else if r.Intn(2) == 0 {
				nd.Kids = []*Node{{Text: o.Text(r)}}
			}
			if o.Noise > 0 {
				if r.Intn(12) == 0 {
					nd.SelfCl = true
				}
				if r.Intn(15) == 0 {
					nd.NoEnd = true
				}
			}
			out = append(out, nd)
		}
	}
	return out
}

var htmlVoid = map[string]bool{"area": true, "base": true, "br": true, "col": true, "embed": true, "hr": true, "img": true, "input": true, "link": true, "meta": true, "param": true, "source": true, "track": true, "wbr": true, "frame": true, "basefont": true, "bgsound": true, "keygen": true}

func IsVoid(n string) bool { return htmlVoid[n] }

// escText is the canonical escaping x/net/html applies to text and attribute values.
func escText(s string) string {
	var b strings.Builder
	for i := 0; i < len(s); i++ {
		switch s[i] {
		case '&':
			b.WriteString("&amp;")
		case '<':
			b.WriteString("&lt;")
		case '>':
			b.WriteString("&gt;")
		case '"':
			b.WriteString("&#34;")
		case '\'':
			b.WriteString("&#39;")
		case '\r':
			b.WriteString("&#13;")
		default:
			b.WriteByte(s[i])
		}
	}
	return b.String()
}

func CanonEscape(s string) string { return escText(s) }

var namedRefs = map[byte][]string{'&': {"&amp;", "&AMP;", "&amp", "&#38;", "&#x26;", "&#X26;", "&#0038;"}, '<': {"&lt;", "&LT;", "&lt", "&#60;", "&#x3c;", "&#x3C", "&#060"},
	'>': {"&gt;", "&GT", "&#62;", "&#x3e;"}, '"': {"&quot;", "&QUOT;", "&#34;", "&#x22;", "&quot"}, '\'': {"&#39;", "&apos;", "&#x27;"},
	':': {"&colon;", "&#58;", "&#x3a;", "&#x3A"}, '\t': {"&Tab;", "&#9;", "&#x9;"}, '\n': {"&NewLine;", "&#10;", "&#xa;"}, '(': {"&lpar;", "&#40;"}, ')': {"&rpar;", "&#41;"},
	'=': {"&equals;", "&#61;"}, ' ': {"&#32;", "&#x20;"}, '/': {"&sol;", "&#47;"}, '\\': {"&bsol;", "&#92;"}}

// noisyText renders decoded text as HTML source with random reference syntaxes.
func noisyText(r *rand.Rand, s string, noise int, attr bool, quote byte) string {
	var b strings.Builder
	for i := 0; i < len(s); i++ {
		c := s[i]
		must := c == '&' || c == '<' || (attr && (c == quote || (quote == 0 && (c == ' ' || c == '\t' || c == '\n' || c == '\f' || c == '\r' || c == '>' || c == '"' || c == '\'' || c == '`' || c == '='))))
		if c == '\r' {
			must = true
		}
		if must && !attr && noise >= 2 && r.Intn(8) == 0 {
			b.WriteByte(c) // deliberately unescaped: the input token stream is the ground truth
			continue
		}
		if must || (noise > 0 && r.Intn(6*(4-noise)) == 0) {
			if refs, ok := namedRefs[c]; ok && (must || c < 0x80) {
				if must {
					// a reference without ';' could swallow following alphanumerics: only forms that are safe
					ref := refs[r.Intn(len(refs))]
					if !strings.HasSuffix(ref, ";") {
						if i+1 < len(s) && (isAlnum(s[i+1]) || s[i+1] == ';' || s[i+1] == '=') {
							ref += ";"
						} else if i+1 >= len(s) && attr {
							ref += ";"
						}
					}
					b.WriteString(ref)
					continue
				}
				ref := refs[r.Intn(len(refs))]
				if !strings.HasSuffix(ref, ";") {
					ref += ";"
				}
				b.WriteString(ref)
				continue
			}
			if c < 0x80 && (must || (c >= 0x20 && c != 0x7f)) {
				if r.Intn(2) == 0 {
					fmt.Fprintf(&b, "&#%d;", c)
				} else {
					fmt.Fprintf(&b, "&#x%x;", c)
				}
				continue
			}
		}
		b.WriteByte(c)
	}
	return b.String()
}

func isAlnum(c byte) bool {
	return c >= '0' && c <= '9' || c >= 'a' && c <= 'z' || c >= 'A' && c <= 'Z'
}

func mixCase(r *rand.Rand, s string) string {
	b := []byte(s)
	for i, c := range b {
		if c >= 'a' && c <= 'z' && r.Intn(2) == 0 {
			b[i] = c - 32
		}
	}
	return string(b)
}

// Serialize renders nodes. noise 0 is the canonical serialisation of
// x/net/html (Token.String): lower case, double quotes, &amp; &lt; &gt; &#34;
// &#39; &#13;, `<br/>` only for self-closing nodes.
func Serialize(r *rand.Rand, nodes []*Node, noise int) string {
	var b strings.Builder
	var ser func(ns []*Node)
	ser = func(ns []*Node) {
		for _, n := range ns {
			switch n.Name {
			case "":
				if noise == 0 {
					b.WriteString(escText(n.Text))
				} else {
					b.WriteString(noisyText(r, n.Text, noise, false, 0))
				}
				continue
			case "#comment":
				b.WriteString("<!--" + n.Text + "-->")
				continue
			case "#doctype":
				b.WriteString("<!DOCTYPE " + n.Text + ">")
				continue
			case "#cdata":
				b.WriteString("<![CDATA[" + n.Text + "]]>")
				continue
			case "#pi":
				b.WriteString("<?" + n.Text + "?>")
				continue
			case "#raw":
				b.WriteString(n.Text)
				continue
			}
			name := n.Name
			if noise > 0 && r.Intn(4) == 0 {
				name = mixCase(r, name)
			}
			if n.StrayEnd {
				b.WriteString("</" + name + ">")
				continue
			}
			b.WriteString("<" + name)
			lastUnquoted := false
			for _, a := range n.Attrs {
				k, v := a[0], a[1]
				if noise == 0 {
					b.WriteString(" " + k + `="` + escText(v) + `"`)
					continue
				}
				if r.Intn(4) == 0 {
					k = mixCase(r, k)
				}
				sep := " "
				switch r.Intn(12) {
				case 2, 3:
					if lastUnquoted {
						break // "/" right after an unquoted value would be read as part of it
					}
					if r.Intn(2) == 0 {
						sep = "/"
					} else {
						sep = " / "
					}
				case 0:
					sep = "\n"
				case 1:
					sep = "\t"
				case 4:
					sep = "\f"
				}
				b.WriteString(sep + k)
				wasUnquoted := false
				switch q := r.Intn(10); {
				case q < 5:
					b.WriteString(`="` + noisyText(r, v, noise, true, '"') + `"`)
				case q < 7:
					b.WriteString(`='` + noisyText(r, v, noise, true, '\'') + `'`)
				case q < 9 && !strings.HasSuffix(v, "/"):
					// (an unquoted value ending in "/" right before ">" is read by
					// x/net/html as a self-closing tag)
					if v == "" {
						b.WriteString(`=""`)
					} else {
						b.WriteString(`=` + noisyText(r, v, noise, true, 0))
						wasUnquoted = true
					}
				default:
					if v == "" {
						// valueless attribute
					} else {
						b.WriteString(` = "` + noisyText(r, v, noise, true, '"') + `"`)
					}
				}
				lastUnquoted = wasUnquoted
			}
			if n.SelfCl {
				if lastUnquoted || (noise > 0 && r.Intn(2) == 0) {
					b.WriteString(" />")
				} else {
					b.WriteString("/>")
				}
				if htmlVoid[n.Name] || len(n.Kids) == 0 {
					continue
				}
			} else {
				if noise > 1 && r.Intn(40) == 0 {
					b.WriteString(" ") // truncated tag
					continue
				}
				b.WriteString(">")
			}
			if htmlVoid[n.Name] && noise == 0 {
				continue
			}
			ser(n.Kids)
			if htmlVoid[n.Name] {
				continue
			}
			if !n.NoEnd {
				b.WriteString("</" + name)
				if noise > 1 && r.Intn(30) == 0 {
					b.WriteString(" x=y")
				}
				b.WriteString(">")
			}
		}
	}
	ser(nodes)
	return b.String()
}

// Texts: decoded text node contents.
var textPool = []string{"hello", "a & b", "1 < 2", "x > y", "\"quoted\"", "it's", "&amp;", "&lt;script&gt;", "&am", "&#", "&#x", "&#60", "&#x3c;script", "&notit;", "&nbsp", "&nbsp;",
	"line\nbreak", "cr\rlf\r\n", "tab\there", "nul\x00byte", "é𝒳", "\xff\xfe\xfd", "\xc0\xaf", " ", "", "  spaced  ", "<", ">", "&", "<b>bold</b>", "</script>", "<!-- c -->", "]]>", "<![CDATA[x]]>",
	"alert(1)", "javascript:alert(1)", "a=b", "`tick`", "{{x}}", "${x}", " sep", "\ufeffbom", "\x0bvt", "\x7fdel", "&copy", "&copy;", "&#128512;", "&#xD800;", "&#0;", "&#x110000;", "&#1234567890;", "&lt", "&lt;b&gt;"}

func HostileText(r *rand.Rand) string {
	if r.Intn(5) == 0 {
		return RandIdent(r, 1+r.Intn(8))
	}
	if r.Intn(12) == 0 {
		// text that starts with a line break (the one character a tree builder drops after <pre>,
		// <listing> and <textarea> start tags; a tokenizer does not)
		return Pick(r, []string{"\n", "\r\n", "\n\n", "\r"}) + RandIdent(r, 1+r.Intn(5))
	}
	return textPool[r.Intn(len(textPool))]
}

// ---------------------------------------------------------------------------
// Bounded-exhaustive piece strings.

var Pieces = []string{"<", "</", ">", "/>", "a", "script", " ", "=", "\"", "'", "&lt;", "<!--", "-->", "<!", "]]>", "x", "style", "b", "href", "&", "<![CDATA[", "textarea"}

// PieceString decodes index idx (mixed radix over Pieces) into a string of
// exactly L pieces.
func PieceString(idx, L int) string {
	var b strings.Builder
	n := len(Pieces)
	for i := 0; i < L; i++ {
		b.WriteString(Pieces[idx%n])
		idx /= n
	}
	return b.String()
}

func PieceCount(L int) int {
	c := 1
	for i := 0; i < L; i++ {
		c *= len(Pieces)
	}
	return c
}

// ---------------------------------------------------------------------------
// Corpus: the `in:` literals of the repository's own tests, harvested at run
// time with go/parser (historical XSS vectors), with a built-in fallback.

var (
	corpusOnce sync.Once
	corpus     []string
)

var fallbackCorpus = []string{
	`<a href="javascript:alert('XSS')">x</a>`, `<IMG SRC=javascript:alert('XSS')>`, `<IMG SRC="jav&#x09;ascript:alert('XSS');">`, `<SCRIPT/XSS SRC="http://ha.ckers.org/xss.js"></SCRIPT>`,
	`<<SCRIPT>alert("XSS");//<</SCRIPT>`, `<IMG """><SCRIPT>alert("XSS")</SCRIPT>">`, `<svg><style><img src=x onerror=alert(1)></style></svg>`, `<math><mtext><table><mglyph><style><img src=x onerror=alert(1)>`,
	`<select><style></select><img src=x onerror=alert(1)>`, `<noscript><p title="</noscript><img src=x onerror=alert(1)>">`, `<!--[if gte IE 4]><SCRIPT>alert('XSS');</SCRIPT><![endif]-->`,
	`<p>Hello <b>World</b>!</p>`, `<a href="http://example.org/" rel="nofollow">x</a>`, `<img src="data:image/png;base64,iVBORw0KGgo=">`, `<div style="color: red; background: url(javascript:alert(1))">x</div>`,
	`<iframe src="http://example.org/"></iframe>`, `<object data="x"><param name=a value=b><b>in</b></object>after`, `<title>t</title><textarea><b></textarea>`, `<xmp><script>alert(1)</script></xmp>`, `<plaintext><b>`,
}

func Corpus() []string {
	corpusOnce.Do(func() {
		repo := os.Getenv("VERIF_REPO")
		if repo == "" {
			repo = "/repo"
		}
		seen := map[string]bool{}
		files, _ := filepath.Glob(filepath.Join(repo, "*_test.go"))
		for _, f := range files {
			fset := token.NewFileSet()
			af, err := parser.ParseFile(fset, f, nil, 0)
			if err != nil {
				continue
			}
			ast.Inspect(af, func(n ast.Node) bool {
				kv, ok := n.(*ast.KeyValueExpr)
				if !ok {
					return true
				}
				id, ok := kv.Key.(*ast.Ident)
				if !ok || id.Name != "in" {
					return true
				}
				if lit, ok := kv.Value.(*ast.BasicLit); ok && lit.Kind == token.STRING {
					if s, err := strconv.Unquote(lit.Value); err == nil && !seen[s] && len(s) < 4000 {
						seen[s] = true
						corpus = append(corpus, s)
					}
				}
				return true
			})
		}
		for _, s := range fallbackCorpus {
			if !seen[s] {
				seen[s] = true
				corpus = append(corpus, s)
			}
		}
	})
	return corpus
}

// Mutate splices / flips / re-cases a corpus entry.
func Mutate(r *rand.Rand, s string) string {
	c := Corpus()
	for k := 0; k < 1+r.Intn(3); k++ {
		switch r.Intn(9) {
		case 0: // splice with another entry
			o := c[r.Intn(len(c))]
			if len(s) > 0 && len(o) > 0 {
				s = s[:r.Intn(len(s)+1)] + o[r.Intn(len(o)):]
			}
		case 1: // bit flip
			if len(s) > 0 {
				b := []byte(s)
				b[r.Intn(len(b))] ^= 1 << uint(r.Intn(8))
				s = string(b)
			}
		case 2:
			s = mixCase(r, s)
		case 3: // delete a byte
			if len(s) > 1 {
				p := r.Intn(len(s))
				s = s[:p] + s[p+1:]
			}
		case 4: // insert a piece
			p := r.Intn(len(s) + 1)
			s = s[:p] + Pieces[r.Intn(len(Pieces))] + s[p:]
		case 5: // truncate
			if len(s) > 2 {
				s = s[:r.Intn(len(s))]
			}
		case 6: // duplicate a span
			if len(s) > 2 {
				a := r.Intn(len(s))
				e := a + r.Intn(len(s)-a)
				s = s[:e] + s[a:e] + s[e:]
			}
		case 7:
			p := r.Intn(len(s) + 1)
			s = s[:p] + []string{"\x00", "\r", "\t", "\n", "\f", "\xff", "&#x3c;", "&lt", "&#0;"}[r.Intn(9)] + s[p:]
		default: // wrap
			w := Pick(r, []string{"svg", "math", "select", "table", "noscript", "textarea", "title", "style", "xmp", "template", "p", "a"})
			s = "<" + w + ">" + s + "</" + w + ">"
		}
		if len(s) > 6000 {
			s = s[:6000]
		}
	}
	return s
}
