package gen

import "sort"

// CSSTokenPool returns ~500 CSS value tokens: every documented keyword, a few
// colour names, numbers, lengths, percentages, times, colours in every
// notation, each functional notation and quoted strings.
func CSSTokenPool() []string {
	set := map[string]bool{}
	add := func(s ...string) {
		for _, x := range s {
			set[x] = true
		}
	}
	add(CSSKeywords...)
	add("red", "blue", "transparent", "rebeccapurple", "lightgoldenrodyellow")
	add("0", "1", "2", "3", "4", "10", "100", "255", "360", "400", "0.5", "1.0", ".5", "1.5", "-1", "-0.5", "007")
	add("1px", "10px", "-1px", "0.5em", "2em", "1rem", "50%", "100%", "1cm", "2mm", "1in", "12pt", "1pc", "1ex", "1ch", "5vw", "5vh", "1vmin", "1vmax", "90deg", "1rad", "1turn", "-10%")
	add("1s", "2ms", "0.5s", "-1s", "100ms")
	add("#fff", "#ffff", "#a1b2c3", "#a1b2c3d4", "rgb(1,2,3)", "rgb(10%, 20%, 30%)", "rgba(1,2,3,0.5)", "rgba(1, 2, 3, 1)", "hsl(120,50%,50%)", "hsl(120, 50%, 50%)", "hsla(120,50%,50%,0.3)")
	add("url(http://example.com/a.png)", "url('https://example.com/a.png')", "url(\"http://example.com/a.png\")", "url(https://example.com/)")
	add("blur(5px)", "brightness(50%)", "contrast(200%)", "drop-shadow(1px 1px)", "drop-shadow(1px 1px 2px)", "drop-shadow(1px 1px 2px 3px)", "grayscale(50%)", "hue-rotate(90)", "hue-rotate()", "invert(50%)", "opacity(50%)", "saturate(50%)", "sepia(50%)")
	add("cubic-bezier(0,0,1,1)", "cubic-bezier(0.1, 0.7, 1.0, 0.1)", "steps(4, end)", "steps(2,start)", "steps(3,)")
	add("matrix(1,2,3,4,5,6)", "matrix(1.0, 2.0, 3.0, 4.0, 5.0, 6.0)", "matrix3d(1,0,0,0,0,1,0,0,0,0,1,0,0,0,0,1)", "translate(10px)", "translate(10px, 20px)", "translate3d(1px,2px,3px)", "translatex(5px)", "translatey(5px)", "translatez(5px)", "scale(2)", "scale(2, 3)", "scale3d(1,2,3)", "scalex(2)", "scaley(2)", "scalez(2)", "rotate(90)", "rotate()", "rotatex(120)", "rotatey(1)", "rotatez(360)", "rotate3d(1,0.5,0.5,90)", "skew(10deg)", "skew(10deg, 20deg)", "skewx(10deg)", "skewy(10deg)", "perspective(100px)")
	add("rect(1px, 2px, 3px, 4px)", "rect(1px,2px,3px,4px)")
	add("span 2", "span", "digits 2", "digits", "/", "row dense", "column dense", "left top", "center center", "right bottom")
	add("'a'", "\"a\"", "'abc def'", "\"header header\"", "'x' 'y'", "\"«\" \"»\"", "'\"' '\"'", "arial", "times new roman", "'times new roman'", "sans-serif", "myanim", "fade", "width", "all", "opacity", "width, height", "a b")
	out := make([]string, 0, len(set))
	for k := range set {
		out = append(out, k)
	}
	sort.Strings(out)
	return out
}

// CSSSeparators used to join tokens into composite values.
var CSSSeparators = []string{" ", ",", ", ", "/", " / "}
