package gen

import (
	"math/rand"
	"strings"
)

var urlSchemes = []string{"web+https", "git+http", "x+mailto", "https+x", "svn+ssh", "http.s", "https-x", "shttp", "xhttps", "http", "https", "mailto", "ftp", "javascript", "vbscript", "data", "file", "tel", "x-app", "HTTP", "JaVaScRiPt", "Https", "livescript", "mhtml", "view-source", "ws", "blob", "about", "h.t-t+p", "1http", "ht tp", "http ", ""}

var urlHosts = []string{"[::1%25a]é]", "[::1]é", "[::1%25a]x]", "[fe80::1%25é]", "[2001:db8::ff]:80", "[2001:db8::ff]", "[::1]:443", "[fe80::1%25eth0]", "example.org:80", "example.org:443", "example.org:", "EXAMPLE.ORG:0080", "example.org", "EXAMPLE.org", "cdn.example.net", "user:pw@example.org", "[::1]", "xn--e1afmkfd.example", "éxample.org", "example.org:8080", "", "127.0.0.1", "a_b.example", "exa mple.org", "example.org.", "%65xample.org", "evil.example"}

var urlPaths = []string{"", "/", "/a/b.png", "/a b", "/a%20b", "/%zz", "/a/../b", "/a;p=1", "/é", "/\x00", "/<script>", "/a\"b", "/a'b", "/a\\b", "//double", "/a:b", "a:b", "rel/path", "./x", "../x", "/ok/file", "/a\tb", "/a\nb"}

var urlQueries = []string{"?a=1&amp;amp;amp;b=2", "?x=&amp;amp;amp;amp;", "?a=&amp;amp;lt;b&amp;amp;gt;", "?q=&amp;#38;amp;", "", "?", "?a=1", "?a=1&b=2", "?a=1;b=2", "?a", "?=v", "?a=%zz", "?<x>=1", "?a=\"x\"", "?q=a b", "?a=1&a=2&&", "?k%3D=v%26", "?ü=ö"}

var urlFrags = []string{"", "#", "#top", "#a b", "#<x>", "#%zz", "#a#b"}

var dataURIs = []string{
	"data:image/png ;base64,iVBORw0KGgo=", "data:image/png; charset=x;base64,iVBORw0KGgo=", "data:text/html ;base64,PHNjcmlwdD4=", "data: image/png;base64,iVBORw0KGgo=", "data:image/png;base64 ,iVBORw0KGgo=", "data:image/png\t;base64,iVBORw0KGgo=", "data:image/png;\nbase64,iVBORw0KGgo=",
	"data:image/png;base64,iVBORw0KGgo=", "data:image/gif;base64,R0lGODlhAQABAAAAACw=", "data:image/jpeg;base64,/9j/4AAQ", "data:image/webp;base64,UklGRg==",
	"data:image/svg+xml;base64,PHN2Zy8+", "data:image/png;base64,iVBORw0KGgo", "data:image/png;base64,iVBO Rw0K\nGgo=", "data:image/png;base64,iVBORw0KGgo=?x=1", "data:image/png;base64,iVBORw0KGgo=#f",
	"data:text/html;base64,PHNjcmlwdD5hbGVydCgxKTwvc2NyaXB0Pg==", "data:text/html,<script>alert(1)</script>", "data:,x", "data:image/png,notbase64", "DATA:image/png;base64,iVBORw0KGgo=",
	"data:image/png;charset=x;base64,iVBORw0KGgo=", "data:image/bmp;base64,Qk0=", "data:image/png;base64,\r\niVBORw0KGgo=", " data:image/png;base64,iVBORw0KGgo= ",
}

// HostileURL returns a URL-ish string from the obfuscation families of §2.4.
// urlSoup: the pieces net/url and browsers disagree about, in any order.
var urlSoup = []string{"\u00a0", "\u2028", "\u3000", "\u0085", "[::1", "%25a]", "]", "%2f", "%2F", "/", "\\", ".", "..", ":", "@", "?", "#", "[", "]", "é", "%", "%25", "%3a", "a", "b", "//", "%5c", "%2e", "%00", "%20", "+", "&", "=", ";", "~", "'", "\"", "<", "%3f", "%23", "http", "x.png", "1", "%2f%2f", "/%2f", "%2F/", "////", "///"}

func HostileURL(r *rand.Rand) string {
	switch r.Intn(15) {
	case 13, 14:
		return SoupURL(r)
	}
	return hostileURL(r)
}

// SoupURL: one to six pieces of the URL soup, half of the time after a scheme.
func SoupURL(r *rand.Rand) string {
	{
		var b strings.Builder
		if r.Intn(2) == 0 { // the soup after a scheme, with no, one or two slashes
			b.WriteString(Pick(r, []string{"http:", "https:", "http:/", "https:/", "mailto:", "http://", "https://", "ftp:/", "x-app:", "x-app:/", "HTTPS:/", "data:"}))
		}
		for k := 1 + r.Intn(6); k > 0; k-- {
			b.WriteString(urlSoup[r.Intn(len(urlSoup))])
		}
		return b.String()
	}
}

func hostileURL(r *rand.Rand) string {
	if r.Intn(30) == 0 {
		// "host:port" written without a scheme: to a browser (and to RFC 3986) the part before the colon IS a scheme
		return Pick(r, []string{"x.y:1", "web.cal:80/x", "example.org:8080/path?q", "localhost:3000", "a.b:65535#f", "cdn.example.net:443/a.png", "1.2.3.4:80/", "x.y:99999", "x.y:1a"})
	}
	switch r.Intn(13) {
	case 12: // fragment-only and query-only references with bytes no URL may contain
		return Pick(r, []string{"#\x01", "#a\rb", "#\x7f", "#a\x00b", "#%zz", "#%", "#top\x0b", "?\x01", "?a=\x7f", "#a b", "#\t", "# ", "#a\fb", "?q=\x1b", "#é\x02"})
	case 0:
		if r.Intn(8) == 0 {
			// longer than 4 KiB, with something no URL may contain somewhere in it
			return "data:image/png;base64," + strings.Repeat("iVBORw0KGgo", 400+r.Intn(300)) + Pick(r, []string{"\x01", "\x0b", "\x0c", "\x7f", "#%zz", " x", "\x00", "=", "\r\n\x01"}) + strings.Repeat("A", r.Intn(8))
		}
		return dataURIs[r.Intn(len(dataURIs))]
	case 1:
		return HostileValue(r)
	}
	scheme := urlSchemes[r.Intn(len(urlSchemes))]
	host := urlHosts[r.Intn(len(urlHosts))]
	path := urlPaths[r.Intn(len(urlPaths))]
	q := urlQueries[r.Intn(len(urlQueries))]
	f := urlFrags[r.Intn(len(urlFrags))]
	var u string
	switch r.Intn(11) {
	case 0, 1, 2:
		u = scheme + "://" + host + path + q + f
	case 3:
		u = scheme + ":" + strings.TrimPrefix(path, "/") + q + f // opaque
	case 4:
		u = "//" + host + path + q + f // scheme-relative
	case 5:
		u = path + q + f // path-only
	case 6:
		u = scheme + ":/" + host + path + q // one slash
	case 7:
		u = scheme + ":\\\\" + host + strings.ReplaceAll(path, "/", "\\") + q // backslashes
	case 8:
		u = "\\\\" + host + path
	case 9:
		u = "/\\" + host + path
	default:
		u = scheme + ":alert(1)" + f
	}
	// obfuscations
	for k := 0; k < 2; k++ {
		switch r.Intn(14) {
		case 0:
			u = " " + u
		case 1:
			u = u + " "
		case 2:
			u = "\x01" + u
		case 3:
			u = "\t" + u
		case 4:
			u = "\n" + u + "\n"
		case 5: // embedded tab / newline / CR inside the scheme
			if i := strings.Index(u, ":"); i > 1 {
				p := 1 + r.Intn(i-1)
				u = u[:p] + []string{"\t", "\n", "\r", "\x00", " ", "\f"}[r.Intn(6)] + u[p:]
			}
		case 6:
			if i := strings.Index(u, ":"); i > 0 {
				u = u[:i] + []string{"\t:", " :", ":\t", "%3a", "&colon;", ":\n"}[r.Intn(6)] + u[i+1:]
			}
		case 7:
			u = strings.ToUpper(u)
		case 8:
			u = " " + u
		case 9:
			u = " " + u
		}
	}
	return u
}

var canonHosts = []string{"GitHub.com", "CDN.Example.ORG", "example.org:80", "example.org:443", "jane@example.org", "user:pw@example.org", "[2001:db8::ff]", "[2001:db8::ff]:8080", "example.org", "cdn.example.net", "a.b.example", "example.org:8080", "127.0.0.1"}
var canonPaths = []string{"/%2Fx", "/a%2Fb", "/%2F%2Fy", "", "/", "/a/b.png", "/a%20b", "/ok/file", "/x_y-z.html", "/a;p=1"}
var canonQueries = []string{"?a=1&amp;amp;amp;b=2", "?x=&amp;amp;lt;", "", "?a=1", "?a=1&b=2", "?q=x%20y", "?a"}
var canonFrags = []string{"", "#top", "#a-b"}

// CanonicalURL returns a URL for which net/url's parse-then-String (and the
// sanitiser's query re-encoding) is the identity. scheme "" gives a relative
// reference.
func CanonicalURL(r *rand.Rand, scheme string) string {
	switch scheme {
	case "":
		return Pick(r, []string{"/%2Fx", "%2F%2Fx", "/%2f/y", "/a/b.png", "a/b.png", "/", "x.html", "../up", "?a=1", "#top", "/p?a=1&b=2#f", "//cdn.example.net/lib.js"})
	case "mailto":
		return "mailto:" + Pick(r, []string{"user@example.org", "a.b@example.org", "x@example.org?subject=hi", "a@example.org?subject=hi&body=line1%0Aline2", "x@example.org?body=a%0D%0Ab"})
	case "tel":
		return "tel:+15551234"
	case "data":
		return Pick(r, []string{"data:image/png;base64,iVBORw0KGgo=", "data:image/gif;base64,R0lGODlhAQABAAAAACw=", "data:image/png;base64,", "data:image/webp;base64,UklGRg=="})
	}
	return scheme + "://" + Pick(r, canonHosts) + Pick(r, canonPaths) + Pick(r, canonQueries) + Pick(r, canonFrags)
}
