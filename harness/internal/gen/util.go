// Package gen holds the PRNG-driven generators (policies, HTML, URLs, CSS).
package gen

import (
	"math/rand"
	"regexp"
	"sync"
)

var reCache sync.Map

// Re compiles (and caches) a regexp from the harness's matcher library.
func Re(src string) *regexp.Regexp {
	if v, ok := reCache.Load(src); ok {
		return v.(*regexp.Regexp)
	}
	r := regexp.MustCompile(src)
	reCache.Store(src, r)
	return r
}

// FreshRe compiles a new *regexp.Regexp (distinct pointer) for the source.
func FreshRe(src string) *regexp.Regexp { return regexp.MustCompile(src) }

const lower = "abcdefghijklmnopqrstuvwxyz"

func RandIdent(r *rand.Rand, n int) string {
	b := make([]byte, n)
	for i := range b {
		b[i] = lower[r.Intn(26)]
	}
	return string(b)
}

func Pick(r *rand.Rand, xs []string) string { return xs[r.Intn(len(xs))] }

func Chance(r *rand.Rand, num, den int) bool { return r.Intn(den) < num }
