package gen

import (
	"fmt"
	"math/rand"
)

// ValLang is one entry of the matcher library: a value pattern together with
// values it accepts and values it rejects (checked at start-up).
type ValLang struct {
	Re   string
	Good []string
	Bad  []string
}

// ValLib is the library the policy generator draws value patterns from. The
// first six are pairwise disjoint on their Good pools, so documents can carry
// values accepted by exactly one of several overlapping rules.
var ValLib = []ValLang{
	{`^[0-9]+$`, []string{"0", "42", "007", "1234567890"}, []string{"4x", "-1", "", " 1", "1<2", "1\n"}},
	{`^[a-z]+$`, []string{"abc", "z", "nofollow"}, []string{"Ab", "a b", "a1", "a\"b", "", "a\x00"}},
	{`(?i)^(left|right)$`, []string{"left", "RIGHT", "Left"}, []string{"leftx", "up", "", " left", "left\n"}},
	{`^x-[a-z0-9]*$`, []string{"x-", "x-a1", "x-zz9"}, []string{"y-a", "x-A", "x", "x-<"}},
	{`^#[a-f]{3}$`, []string{"#abc", "#fed"}, []string{"#abcd", "abc", "#ABC", "#ab<"}},
	{`^_[A-Z]+$`, []string{"_A", "_XYZ"}, []string{"_a", "A", "_", "_A b"}},
	{`foo`, []string{"foo", "a foo b", `"><foo>`, "fooBAR", "x&foo;'"}, []string{"fo", "bar", "FOO", ""}},
	{`^[^<>"]*$`, []string{"anything & 'x'", "", "a=b;c", "tab\there"}, []string{"<", `"`, "a>b"}},
	{`^$`, []string{""}, []string{"x", " "}},
	{`(?i)|nowrap`, []string{"", "nowrap", "anything <at> \"all\""}, nil},
	{`^(?:[\p{L}\p{N}\s\-_',\[\]!\./\\\(\)]*)$`, []string{"Hello, world!", "it's [ok] (really)", "", "Größe 12"}, []string{"a<b", `say "x"`, "a=b", "a&b", "a;b"}},
	{`^([\s\p{L}\p{N}_-]+)$`, []string{"a", "a b", "foo_bar-1 x", "é", " a", "a b ", "\ta\n"}, []string{"", "a.b", "a<b", "a,b"}},
}

func init() {
	for _, v := range ValLib {
		re := Re(v.Re)
		for _, g := range v.Good {
			if !re.MatchString(g) {
				panic(fmt.Sprintf("gen.ValLib: %q should accept %q", v.Re, g))
			}
		}
		for _, b := range v.Bad {
			if re.MatchString(b) {
				panic(fmt.Sprintf("gen.ValLib: %q should reject %q", v.Re, b))
			}
		}
	}
}

var extraPools = map[string][2][]string{}

// RegisterPool adds good/bad pools for a pattern that is not in ValLib (the
// documented helper patterns).
func RegisterPool(re string, good, bad []string) {
	r := Re(re)
	for _, g := range good {
		if !r.MatchString(g) {
			panic(fmt.Sprintf("gen.RegisterPool: %q should accept %q", re, g))
		}
	}
	for _, b := range bad {
		if r.MatchString(b) {
			panic(fmt.Sprintf("gen.RegisterPool: %q should reject %q", re, b))
		}
	}
	extraPools[re] = [2][]string{good, bad}
}

// Pools returns accepted and rejected sample values for a pattern source, or
// nil, nil if the library does not know it.
func Pools(re string) (good, bad []string) {
	for _, v := range ValLib {
		if v.Re == re {
			return v.Good, v.Bad
		}
	}
	if p, ok := extraPools[re]; ok {
		return p[0], p[1]
	}
	return nil, nil
}

// HostileValues are attribute values that try to break out of their context.
var HostileValues = []string{
	`"><script>alert(1)</script>`, `'><img src=x onerror=alert(1)>`, "javascript:alert(1)", "JaVaScRiPt:alert(1)", " javascript:alert(1)",
	"java\tscript:alert(1)", "java\nscript:alert(1)", "&#106;avascript:alert(1)", "data:text/html,<script>alert(1)</script>", "vbscript:msgbox(1)",
	"x\x00y", "\xff\xfe", "a&b", "a&amp;b", "&lt;b&gt;", "`", "a=b", "</title><script>", "--><script>", "]]>", "<!--", "\r\n", " ", "é", "𝒳",
	"expression(alert(1))", "width: 100%", "url(javascript:alert(1))", "//evil.example/x", "\\\\evil\\x", "/path?a=1&b=2#f", "?q", "#frag", "",
	" ", "\t", "x y", "\f", "a\fb", "a\u2028b", "a\u2029b", "\u0085", "%41", "%zz", "%", "100%", "a%2", "HTTPS://Example.ORG/Path", "hTtP://example.org/", "data:image/svg+xml;base64,PHN2Zy8+", "data:image/x+y;base64,AAAA",
	"x\x00", "\x00x", "\ufeffx", "a\u200bb", "\x7f", "\x1b[0m", "http://example.org/", "https://example.org/a?b=c&d=e", "mailto:a@example.org", "HTTP://EXAMPLE.ORG/UP", "http://a b/", "http://[::1]:80/", "http://user:pw@example.org/",
}

func HostileValue(r *rand.Rand) string { return HostileValues[r.Intn(len(HostileValues))] }

// WellKnownAttrValues: the keyword sets HTML defines for enumerated attributes (and a few
// values real pages carry in free-form ones). Code that special-cases an attribute value
// almost always special-cases one of these.
var WellKnownAttrValues = map[string][]string{
	"type": {"text/javascript", "module", "application/json", "application/ld+json", "importmap", "text/css", "text/template", "text/plain", "submit", "button", "reset", "image", "checkbox", "radio", "hidden", "file", "password", "text", "email", "url", "number", "range", "color", "date", "search", "tel",
		"a", "A", "i", "I", "1", "disc", "circle", "square", "image/png", "image/svg+xml", "video/mp4", "audio/mpeg", "application/x-shockwave-flash", "text/html"},
	"rel":             {"nofollow", "noopener", "noreferrer", "stylesheet", "icon", "preload", "prefetch", "dns-prefetch", "preconnect", "modulepreload", "canonical", "alternate", "author", "tag", "me", "ugc", "sponsored", "opener", "external", "next", "prev", "import", "manifest", "noopener noreferrer", "nofollow ugc"},
	"target":          {"_blank", "_self", "_parent", "_top", "_BLANK", "_unfencedTop", "frame1", ""},
	"method":          {"get", "post", "dialog", "GET"},
	"dir":             {"ltr", "rtl", "auto", "LTR"},
	"lang":            {"en", "en-GB", "zh-Hans", "es-419", "de-CH-1996", "x-klingon", "i-default", "EN"},
	"shape":           {"rect", "circle", "poly", "default", "rectangle", "polygon"},
	"scope":           {"row", "col", "rowgroup", "colgroup", "auto"},
	"align":           {"left", "right", "center", "justify", "char", "top", "middle", "bottom", "absmiddle", "texttop", "baseline", "absbottom"},
	"valign":          {"top", "middle", "bottom", "baseline"},
	"crossorigin":     {"anonymous", "use-credentials", "", "Anonymous"},
	"loading":         {"lazy", "eager"},
	"decoding":        {"async", "sync", "auto"},
	"referrerpolicy":  {"no-referrer", "origin", "unsafe-url", "strict-origin-when-cross-origin", "same-origin"},
	"http-equiv":      {"refresh", "content-security-policy", "content-type", "set-cookie", "x-ua-compatible", "Refresh"},
	"content":         {"0;url=javascript:alert(1)", "0; URL=http://evil.example/", "text/html; charset=utf-7", "width=device-width"},
	"charset":         {"utf-8", "utf-7", "UTF-8"},
	"media":           {"all", "print", "screen", "(max-width: 600px)", "screen and (color)"},
	"as":              {"script", "style", "image", "font", "fetch", "document"},
	"kind":            {"subtitles", "captions", "descriptions", "chapters", "metadata"},
	"preload":         {"none", "metadata", "auto", ""},
	"autocomplete":    {"on", "off", "name", "email", "current-password", "cc-number"},
	"enctype":         {"application/x-www-form-urlencoded", "multipart/form-data", "text/plain"},
	"formenctype":     {"multipart/form-data", "text/plain"},
	"formmethod":      {"get", "post"},
	"wrap":            {"soft", "hard", "off"},
	"contenteditable": {"true", "false", "", "plaintext-only"},
	"draggable":       {"true", "false"},
	"spellcheck":      {"true", "false", ""},
	"translate":       {"yes", "no"},
	"hidden":          {"", "hidden", "until-found"},
	"role":            {"button", "link", "presentation", "none", "img", "dialog"},
	"aria-hidden":     {"true", "false"},
	"open":            {"", "open", "OPEN"},
	"nowrap":          {"", "nowrap"},
	"controls":        {"", "controls"},
	"async":           {""}, "defer": {""}, "nomodule": {""}, "disabled": {""}, "checked": {""}, "selected": {""}, "multiple": {""}, "readonly": {""}, "required": {""}, "autofocus": {""}, "autoplay": {""}, "loop": {""}, "muted": {""}, "ismap": {""}, "reversed": {""}, "allowfullscreen": {""}, "download": {"", "file.txt"},
	"sandbox":     {"", "allow-scripts", "allow-same-origin allow-scripts", "allow-forms allow-popups", "allow-top-navigation"},
	"allow":       {"fullscreen", "camera; microphone", "geolocation 'self'"},
	"srcdoc":      {"<script>alert(1)</script>", "<p>x</p>"},
	"srcset":      {"a.png 1x, b.png 2x", "javascript:alert(1) 1x", "http://example.org/a.png 480w"},
	"sizes":       {"100vw", "(max-width: 600px) 480px, 800px", "16x16", "any"},
	"integrity":   {"sha384-oqVuAfXRKap7fdgcCY5uykM6+R9GqQ8K/uxy9rx7HNQlGYl1kPzQho1wx4JwY8wC", "sha256-x"},
	"nonce":       {"abc123"},
	"is":          {"my-x", "x-foo"},
	"slot":        {"a"},
	"part":        {"a b"},
	"xmlns":       {"http://www.w3.org/2000/svg", "http://www.w3.org/1998/Math/MathML", "http://www.w3.org/1999/xhtml"},
	"xmlns:xlink": {"http://www.w3.org/1999/xlink"},
	"xml:lang":    {"en"}, "xml:space": {"preserve", "default"},
	"encoding": {"text/html", "application/xhtml+xml", "TEXT/HTML"},
	"datetime": {"2024-02-29", "2024-02-29T23:59:59Z", "2024-02-29 23:59", "P1D", "2024-W09"},
	"value":    {"0", "1", "1.5", "-1", "on", "x"},
	"width":    {"100", "100%", "0", "1e3", "auto"}, "height": {"100", "100%", "0"}, "span": {"1", "2", "1000"}, "colspan": {"1", "2", "0", "1001"}, "rowspan": {"1", "0", "65534", "65535"},
	"coords":    {"0,0,10,10", "5,5,3", "1,2,3,4,5,6"},
	"usemap":    {"#map1", "#", "map1"},
	"name":      {"map1", "q", "referrer", "viewport", "_charset_", "isindex"},
	"id":        {"a1", "x:y", "main", "constructor", "__proto__"},
	"class":     {"a", "a b", "btn btn-primary", "é"},
	"tabindex":  {"0", "-1", "1"},
	"accesskey": {"a", "a b"},
	"inputmode": {"numeric", "none", "text"},
	"start":     {"1", "-5", "0"},
	"face":      {"Arial", "Times New Roman, serif"}, "color": {"red", "#ff0000", "#f00", "rgb(1,2,3)"}, "bgcolor": {"#ffffff", "white"}, "size": {"1", "+1", "7", "-2"}, "border": {"0", "1"}, "cellpadding": {"0", "5"}, "cellspacing": {"0"},
}

// WellKnownAttrValue returns a well-known value for key, if the table has one.
func WellKnownAttrValue(r *rand.Rand, key string) (string, bool) {
	v, ok := WellKnownAttrValues[key]
	if !ok || len(v) == 0 {
		return "", false
	}
	return v[r.Intn(len(v))], true
}
