package gen

import (
	"fmt"
	"math/rand"
)

// ValLang is one entry of the matcher library: a value pattern together with
// values it accepts and values it rejects (checked at start-up).
type ValLang struct {
	Re   string
	Good []string
	Bad  []string
}

// ValLib is the library the policy generator draws value patterns from. The
// first six are pairwise disjoint on their Good pools, so documents can carry
// values accepted by exactly one of several overlapping rules.
var ValLib = []ValLang{
	{`^[0-9]+$`, []string{"0", "42", "007", "1234567890"}, []string{"4x", "-1", "", " 1", "1<2", "1\n"}},
	{`^[a-z]+$`, []string{"abc", "z", "nofollow"}, []string{"Ab", "a b", "a1", "a\"b", "", "a\x00"}},
	{`(?i)^(left|right)$`, []string{"left", "RIGHT", "Left"}, []string{"leftx", "up", "", " left", "left\n"}},
	{`^x-[a-z0-9]*$`, []string{"x-", "x-a1", "x-zz9"}, []string{"y-a", "x-A", "x", "x-<"}},
	{`^#[a-f]{3}$`, []string{"#abc", "#fed"}, []string{"#abcd", "abc", "#ABC", "#ab<"}},
	{`^_[A-Z]+$`, []string{"_A", "_XYZ"}, []string{"_a", "A", "_", "_A b"}},
	{`foo`, []string{"foo", "a foo b", `"><foo>`, "fooBAR", "x&foo;'"}, []string{"fo", "bar", "FOO", ""}},
	{`^[^<>"]*$`, []string{"anything & 'x'", "", "a=b;c", "tab\there"}, []string{"<", `"`, "a>b"}},
	{`^$`, []string{""}, []string{"x", " "}},
	{`(?i)|nowrap`, []string{"", "nowrap", "anything <at> \"all\""}, nil},
	{`^(?:[\p{L}\p{N}\s\-_',\[\]!\./\\\(\)]*)$`, []string{"Hello, world!", "it's [ok] (really)", "", "Größe 12"}, []string{"a<b", `say "x"`, "a=b", "a&b", "a;b"}},
	{`^([\s\p{L}\p{N}_-]+)$`, []string{"a", "a b", "foo_bar-1 x", "é"}, []string{"", "a.b", "a<b", "a,b"}},
}

func init() {
	for _, v := range ValLib {
		re := Re(v.Re)
		for _, g := range v.Good {
			if !re.MatchString(g) {
				panic(fmt.Sprintf("gen.ValLib: %q should accept %q", v.Re, g))
			}
		}
		for _, b := range v.Bad {
			if re.MatchString(b) {
				panic(fmt.Sprintf("gen.ValLib: %q should reject %q", v.Re, b))
			}
		}
	}
}

var extraPools = map[string][2][]string{}

// RegisterPool adds good/bad pools for a pattern that is not in ValLib (the
// documented helper patterns).
func RegisterPool(re string, good, bad []string) {
	r := Re(re)
	for _, g := range good {
		if !r.MatchString(g) {
			panic(fmt.Sprintf("gen.RegisterPool: %q should accept %q", re, g))
		}
	}
	for _, b := range bad {
		if r.MatchString(b) {
			panic(fmt.Sprintf("gen.RegisterPool: %q should reject %q", re, b))
		}
	}
	extraPools[re] = [2][]string{good, bad}
}

// Pools returns accepted and rejected sample values for a pattern source, or
// nil, nil if the library does not know it.
func Pools(re string) (good, bad []string) {
	for _, v := range ValLib {
		if v.Re == re {
			return v.Good, v.Bad
		}
	}
	if p, ok := extraPools[re]; ok {
		return p[0], p[1]
	}
	return nil, nil
}

// HostileValues are attribute values that try to break out of their context.
var HostileValues = []string{
	`"><script>alert(1)</script>`, `'><img src=x onerror=alert(1)>`, "javascript:alert(1)", "JaVaScRiPt:alert(1)", " javascript:alert(1)",
	"java\tscript:alert(1)", "java\nscript:alert(1)", "&#106;avascript:alert(1)", "data:text/html,<script>alert(1)</script>", "vbscript:msgbox(1)",
	"x\x00y", "\xff\xfe", "a&b", "a&amp;b", "&lt;b&gt;", "`", "a=b", "</title><script>", "--><script>", "]]>", "<!--", "\r\n", " ", "é", "𝒳",
	"expression(alert(1))", "width: 100%", "url(javascript:alert(1))", "//evil.example/x", "\\\\evil\\x", "/path?a=1&b=2#f", "?q", "#frag", "",
	" ", "\t", "x y", "\f", "a\fb", "a\u2028b", "a\u2029b", "\u0085", "%41", "%zz", "%", "100%", "a%2", "HTTPS://Example.ORG/Path", "hTtP://example.org/", "data:image/svg+xml;base64,PHN2Zy8+", "data:image/x+y;base64,AAAA",
	"x\x00", "\x00x", "\ufeffx", "a\u200bb", "\x7f", "\x1b[0m", "http://example.org/", "https://example.org/a?b=c&d=e", "mailto:a@example.org", "HTTP://EXAMPLE.ORG/UP", "http://a b/", "http://[::1]:80/", "http://user:pw@example.org/",
}

func HostileValue(r *rand.Rand) string { return HostileValues[r.Intn(len(HostileValues))] }
