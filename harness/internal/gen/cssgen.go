package gen

import (
	"fmt"
	"math/rand"
	"strings"
)

// StyleDecl is a declaration the style generator may use: a property and
// candidate values (decoded form).
type StyleDecl struct {
	Prop   string
	Values []string
}

var cssNoiseValues = []string{"red", "RED", "#fff", "10px", "1em", "url(javascript:alert(1))", "url(http://example.org/a.png)", "expression(alert(1))", "inherit", "0", "a b", "\"x;y\"", "'a:b'",
	"url(\"a;b\")", "url(a;b)", "}", "{", "red !important", "red ! important", "safe-abc", "12345", "bold", "left", "none", "1.0", "rgb(1,2,3)", "x\\3b y", "/* c */red", "re/**/d", "red/* ; color: blue */",
	"\\72 ed", "r\\65 d", "r\\65\td", "r\\000065d", "r\\e d", "\\red", "r\\ed", "red\\", "\\10ffff", "\\0", "\\d800", "r\\\ned", "red\\;", "red\\\\;", "\\;", "red\\", "red !important !important", "{", "(", "[", "red /*", "\"red", "-moz-initial", "calc(1px + 2px)", "var(--x)", "attr(x)", "<", ">", "&", "\"", "'", "\x00", "é",
	"(a]", "[a)", "{a)", "([)]", "a\\\\", "a\\\\\\",
	// escaped bangs and other spellings around the !important flag
	"\\!important!important", "red\\!important !important", "a\\!important", "\\!", "red \\!important", "red\\21 important", "red !\\69mportant", "red !important\\", "red!important", "red !IMPORTANT", "red!important!important", "! important", "!important", "red !importantx", "red ! important !important"}

// CSSNoiseValues returns the noise values (a copy).
func CSSNoiseValues() []string { return append([]string{}, cssNoiseValues...) }

var cssUnknownProps = []string{"margin-inline-start", "padding-block", "border-inline-end", "color-start", "margin-inline", "inset-block-start", "width-x", "-webkit-margin-start", "behavior", "-moz-binding", "zoom", "x-unknown", "colour", "src", "content", "--custom", "c\\6flor", "col\\or", "COLOR", "-webkit-color", "mso-color", "-webkit--moz-color", "prince-color", "color ", " color", "co lor", "", "*color", "_color", "color\\", "font", "position"}

func encodeEscapes(r *rand.Rand, v string) string {
	// re-encode some letters as CSS hex escapes with assorted terminators
	var b strings.Builder
	for i := 0; i < len(v); i++ {
		c := v[i]
		if c >= 'a' && c <= 'z' && r.Intn(5) == 0 {
			term := []string{" ", "\t", "\n", "", "\f", "\r\n", "\r", "\r "}[r.Intn(8)]
			width := []string{"%x", "%02x", "%04x", "%06x", "%X"}[r.Intn(5)]
			next := byte(0)
			if i+1 < len(v) {
				next = v[i+1]
			}
			if term == "" && (next == 0 || isHexByte(next) || next == ' ') && width != "%06x" {
				term = " "
			}
			fmt.Fprintf(&b, "\\"+width+"%s", c, term)
			continue
		}
		b.WriteByte(c)
	}
	return b.String()
}

func isHexByte(c byte) bool {
	return c >= '0' && c <= '9' || c >= 'a' && c <= 'f' || c >= 'A' && c <= 'F'
}

// StyleAttr builds a hostile style attribute value. clean=true yields the
// clean form of C10: `prop: value; prop: value` single-space separated, no
// comments, no !important, no escapes.
func StyleAttr(r *rand.Rand, known []StyleDecl, clean bool) string {
	n := 1 + r.Intn(4)
	if r.Intn(40) == 0 {
		n = 65 + r.Intn(140) // more declarations than any fixed-size table holds
	}
	var decls []string
	for i := 0; i < n; i++ {
		var prop, val string
		if len(known) > 0 && r.Intn(4) > 0 {
			d := known[r.Intn(len(known))]
			prop = d.Prop
			if len(d.Values) > 0 && r.Intn(3) > 0 {
				val = d.Values[r.Intn(len(d.Values))]
			} else {
				val = cssNoiseValues[r.Intn(len(cssNoiseValues))]
			}
		} else {
			prop = cssUnknownProps[r.Intn(len(cssUnknownProps))]
			val = cssNoiseValues[r.Intn(len(cssNoiseValues))]
		}
		if clean {
			if strings.ContainsAny(val, "\\;/*!{}\"'<>&\x00") || strings.ContainsAny(prop, "\\ *") || prop == "" || val == "" || strings.TrimSpace(val) != val {
				val = "red"
			}
			if strings.ContainsAny(prop, "\\ *") || prop == "" {
				prop = "x-unknown"
			}
			decls = append(decls, prop+": "+val)
			continue
		}
		switch r.Intn(10) {
		case 0:
			prop = strings.ToUpper(prop)
		case 1:
			prop = Pick(r, []string{"-webkit-", "-moz-", "-ms-", "-o-", "mso-", "-khtml-", "prince-", "-webkit--moz-"}) + prop
		case 2:
			prop = mixCase(r, prop)
		}
		switch r.Intn(12) {
		case 11:
			// white space that only exists after escape decoding, at the edges of the value: part of the
			// value for a browser, invisible to a matcher that trims
			esc := Pick(r, []string{"\\20 ", "\\9 ", "\\a ", "\\a0 ", "\\3000 ", "\\b ", "\\2003 ", "\\d ", "\\c "})
			if r.Intn(2) == 0 {
				val = val + esc
			} else {
				val = esc + val
			}
		case 10:
			// decoder probe: the last character written as an escape, one terminator, then one junk
			// character. A browser reads VALUE+junk; a decoder that eats one character too many reads VALUE.
			if n := len(val); n > 0 && val[n-1] >= 'a' && val[n-1] <= 'z' {
				term := []string{" ", "\t", "\n", "\f", "\r\n", "\r", "\r\n\n", "  ", " \t"}[r.Intn(9)]
				val = fmt.Sprintf("%s\\%x%s%s", val[:n-1], val[n-1], term, Pick(r, []string{"x", "9", "-", "z"}))
			}
		case 0:
			val = strings.ToUpper(val)
		case 1, 2:
			val = encodeEscapes(r, val)
		case 3:
			val += " !important"
		case 4:
			val = "/*c*/" + val
		}
		sep := Pick(r, []string{": ", ":", " : ", ":\t", ":\n"})
		decls = append(decls, prop+sep+val)
	}
	if clean {
		// the canonical layout, or the same declarations the way people and tools really write them:
		// one per line, no space after the colon is handled above, a final semi-colon, blank lines
		if r.Intn(15) == 0 {
			// the last value ends in escaped backslashes (complete escapes, an even number of bytes)
			decls[len(decls)-1] += Pick(r, []string{"\\\\", "\\\\\\\\"})
			return strings.Join(decls, "; ") + Pick(r, []string{";", "", "; "})
		}
		switch r.Intn(8) {
		case 0:
			return strings.Join(decls, ";\n") + ";\n"
		case 1:
			return "\n  " + strings.Join(decls, ";\n  ") + ";\n"
		case 2:
			return strings.Join(decls, ";") + Pick(r, []string{";", "; ", ";\t", ";\r\n", " ;", ";\f"})
		case 3:
			return Pick(r, []string{" ", "\t", "\n"}) + strings.Join(decls, Pick(r, []string{" ; ", ";\t", "\n;\n", ";\r\n"}))
		case 4:
			if r.Intn(3) == 0 { // empty declarations are declarations nobody wrote
				return Pick(r, []string{";", "; ", ""}) + strings.Join(decls, Pick(r, []string{";;", "; ;", ";\n;"})) + Pick(r, []string{"", ";;", ";"})
			}
		}
		return strings.Join(decls, "; ")
	}
	s := strings.Join(decls, Pick(r, []string{"; ", ";", " ; ", ";\n", ";;", "; ;"}))
	switch r.Intn(10) {
	case 0:
		s += ";"
	case 1:
		s += Pick(r, []string{"\\\\;", "\\\\\\\\;", "\\;", "; color", "; :", "; }", "; {", "; @import 'x'", "; color: red; }", "/*", "\\", "; \"", "; '", "; url(", ";;;"})
	case 2:
		s = " " + s + " "
	case 3:
		// terminators and white space of every kind after the last declaration
		s += Pick(r, []string{";", ";;", "; ;", ";;;"}) + Pick(r, []string{"\t", "\n", "\r\n", "\f", "\u00a0", "\v", " \t ", "\u3000", "\u2028", " ", "\x00", "\ufeff"})
	case 4:
		s = Pick(r, []string{";", ";;", "\t;", "\u00a0;", "\n;;\n"}) + s
	}
	return s
}
