package oracle

import (
	"strings"
	"unicode/utf8"
)

// O-css: an independent reader of CSS declaration lists (CSS Syntax Level 3:
// "consume a list of declarations") and of CSS escapes (§4.3.7).

type Decl struct {
	RawProperty  string
	Property     string // escapes decoded, ASCII lower-cased
	BareProperty string // Property with leading vendor prefixes removed
	RawValue     string // as written, trimmed, without !important
	DecodedValue string // lower-cased, escapes decoded as a browser would
	Important    bool
	Malformed    bool // no colon / not an identifier: a browser drops it
}

// VendorPrefixes is the documented list.
var VendorPrefixes = []string{"-webkit-", "-moz-", "-ms-", "-o-", "mso-", "-xv-", "-atsc-", "-wap-", "-khtml-", "prince-", "-ah-", "-hp-", "-ro-", "-rim-", "-tc-"}

func isHex(c byte) bool {
	return c >= '0' && c <= '9' || c >= 'a' && c <= 'f' || c >= 'A' && c <= 'F'
}

func isCSSSpace(c byte) bool { return c == ' ' || c == '\t' || c == '\n' || c == '\r' || c == '\f' }

// DecodeCSSEscapes decodes backslash escapes the way a browser's tokenizer does.
func DecodeCSSEscapes(s string) string {
	if !strings.Contains(s, `\`) {
		return s
	}
	var b strings.Builder
	for i := 0; i < len(s); {
		c := s[i]
		if c != '\\' {
			b.WriteByte(c)
			i++
			continue
		}
		i++
		if i >= len(s) {
			b.WriteRune(0xFFFD)
			break
		}
		if isHex(s[i]) {
			j := i
			v := 0
			for j < len(s) && j-i < 6 && isHex(s[j]) {
				v = v*16 + hexVal(s[j])
				j++
			}
			i = j
			if i < len(s) && isCSSSpace(s[i]) {
				if s[i] == '\r' && i+1 < len(s) && s[i+1] == '\n' {
					i++
				}
				i++
			}
			if v == 0 || v > 0x10FFFF || (v >= 0xD800 && v <= 0xDFFF) {
				v = 0xFFFD
			}
			b.WriteRune(rune(v))
			continue
		}
		if s[i] == '\n' || s[i] == '\f' || s[i] == '\r' {
			// escaped newline: a line continuation inside strings, invalid elsewhere; drop it
			if s[i] == '\r' && i+1 < len(s) && s[i+1] == '\n' {
				i++
			}
			i++
			continue
		}
		r, n := utf8.DecodeRuneInString(s[i:])
		b.WriteRune(r)
		i += n
	}
	return b.String()
}

func hexVal(c byte) int {
	switch {
	case c >= '0' && c <= '9':
		return int(c - '0')
	case c >= 'a' && c <= 'f':
		return int(c-'a') + 10
	}
	return int(c-'A') + 10
}

// splitTop splits s at top-level occurrences of sep, honouring strings,
// (), [], {}, comments and escapes.
func splitTop(s string, sep byte, firstOnly bool) []string {
	var parts []string
	var cur strings.Builder
	depth := 0
	var closers []byte
	for i := 0; i < len(s); i++ {
		c := s[i]
		switch {
		case c == '\\':
			cur.WriteByte(c)
			if i+1 < len(s) {
				i++
				cur.WriteByte(s[i])
			}
		case c == '/' && i+1 < len(s) && s[i+1] == '*':
			// a comment never contains a separator; its text stays part of the piece (the
			// property speaks of lower-casing and escape decoding only)
			j := strings.Index(s[i+2:], "*/")
			end := len(s)
			if j >= 0 {
				end = i + 2 + j + 2
			}
			cur.WriteString(s[i:end])
			i = end - 1
		case c == '"' || c == '\'':
			cur.WriteByte(c)
			for i++; i < len(s); i++ {
				cur.WriteByte(s[i])
				if s[i] == '\\' && i+1 < len(s) {
					i++
					cur.WriteByte(s[i])
					continue
				}
				if s[i] == c || s[i] == '\n' {
					break
				}
			}
		case c == '(' || c == '[' || c == '{':
			// a simple block ends at ITS closing token; any other closer inside it is an ordinary token
			closers = append(closers, map[byte]byte{'(': ')', '[': ']', '{': '}'}[c])
			depth = len(closers)
			cur.WriteByte(c)
		case c == ')' || c == ']' || c == '}':
			if len(closers) > 0 && closers[len(closers)-1] == c {
				closers = closers[:len(closers)-1]
			}
			depth = len(closers)
			cur.WriteByte(c)
		case c == sep && depth == 0 && !(firstOnly && len(parts) > 0):
			parts = append(parts, cur.String())
			cur.Reset()
		default:
			cur.WriteByte(c)
		}
	}
	parts = append(parts, cur.String())
	return parts
}

func isIdent(s string) bool {
	if s == "" {
		return false
	}
	for i, r := range s {
		ok := r == '-' || r == '_' || r >= 0x80 || r >= 'a' && r <= 'z' || r >= 'A' && r <= 'Z' || (i > 0 && r >= '0' && r <= '9')
		if !ok {
			return false
		}
	}
	return true
}

// ParseDeclarations reads a style attribute the way a browser does.
func ParseDeclarations(style string) []Decl {
	var out []Decl
	for _, piece := range splitTop(style, ';', false) {
		p := strings.TrimFunc(piece, func(r rune) bool { return r < 0x80 && isCSSSpace(byte(r)) })
		if p == "" {
			continue
		}
		kv := splitTop(p, ':', true)
		if len(kv) < 2 {
			out = append(out, Decl{RawProperty: p, Malformed: true})
			continue
		}
		rawProp := strings.TrimFunc(kv[0], func(r rune) bool { return r < 0x80 && isCSSSpace(byte(r)) })
		val := strings.TrimFunc(kv[1], func(r rune) bool { return r < 0x80 && isCSSSpace(byte(r)) })
		prop := asciiLower(DecodeCSSEscapes(rawProp))
		d := Decl{RawProperty: rawProp, Property: prop}
		if !isIdent(prop) {
			d.Malformed = true
		}
		// !important
		if i := strings.LastIndex(val, "!"); i >= 0 {
			tail := strings.TrimFunc(val[i+1:], func(r rune) bool { return r < 0x80 && isCSSSpace(byte(r)) })
			if asciiLower(DecodeCSSEscapes(tail)) == "important" {
				d.Important = true
				val = strings.TrimRight(val[:i], " \t\n\r\f")
			}
		}
		d.RawValue = val
		d.DecodedValue = DecodeCSSEscapes(strings.ToLower(val))
		bare := prop
		for _, pre := range VendorPrefixes {
			bare = strings.TrimPrefix(bare, pre)
		}
		d.BareProperty = bare
		out = append(out, d)
	}
	return out
}
