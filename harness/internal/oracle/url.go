package oracle

import "strings"

// O-url: a WHATWG-style scheme extractor that does not use net/url.
//
// Browsers strip leading and trailing C0 controls and spaces, delete every
// TAB, LF and CR, and then read a scheme if the string starts with
// ALPHA *( ALPHA / DIGIT / "+" / "-" / "." ) ":".

type URLClass struct {
	Scheme     string // lower-case; "" for a relative reference
	HasWS      bool   // contains ASCII whitespace (space, TAB, LF, FF, CR)
	HasControl bool   // contains another C0 control or DEL
	Rest       string // after the scheme's colon (or the whole cleaned string)
}

func ClassifyURL(v string) URLClass {
	var c URLClass
	for i := 0; i < len(v); i++ {
		switch b := v[i]; {
		case b == ' ' || b == '\t' || b == '\n' || b == '\f' || b == '\r':
			c.HasWS = true
		case b < 0x20 || b == 0x7f:
			c.HasControl = true
		}
	}
	s := strings.TrimFunc(v, func(r rune) bool { return r <= 0x20 })
	s = strings.NewReplacer("\t", "", "\n", "", "\r", "").Replace(s)
	c.Rest = s
	if len(s) == 0 || !isAlpha(s[0]) {
		return c
	}
	for i := 1; i < len(s); i++ {
		b := s[i]
		if b == ':' {
			c.Scheme = asciiLower(s[:i])
			c.Rest = s[i+1:]
			return c
		}
		if !(isAlpha(b) || b >= '0' && b <= '9' || b == '+' || b == '-' || b == '.') {
			return c
		}
	}
	return c
}

func isAlpha(b byte) bool { return b >= 'a' && b <= 'z' || b >= 'A' && b <= 'Z' }

// HostQualified: does the reference unambiguously name a host? Judged only on
// the forms on which RFC 3986 and WHATWG agree: "scheme://h..." and "//h...".
// ok=false means the two standards disagree (or it cannot be told) and the
// caller must not judge.
func HostQualified(v string) (hasHost bool, ok bool) {
	c := ClassifyURL(v)
	if c.HasWS || c.HasControl || strings.Contains(v, "\\") {
		return false, false
	}
	rest := c.Rest
	if strings.HasPrefix(rest, "//") {
		h := rest[2:]
		end := strings.IndexAny(h, "/?#")
		if end >= 0 {
			h = h[:end]
		}
		if i := strings.LastIndex(h, "@"); i >= 0 {
			h = h[i+1:]
		}
		if h == "" || strings.HasPrefix(h, ":") {
			return false, false // "http:///x", "//:80": implementations disagree
		}
		if !plainAuthority(h) {
			// an authority that is not plainly host[:port] (bad port, odd characters, IDN, percent
			// escapes) may be a parse failure for one implementation and a host for another
			return false, false
		}
		return true, true
	}
	if c.Scheme == "" {
		return false, true // path / query / fragment only
	}
	if strings.HasPrefix(rest, "/") {
		return false, false // "http:/h": RFC says no authority, WHATWG (special schemes) says host
	}
	switch c.Scheme {
	case "http", "https", "ftp", "ws", "wss", "file":
		return false, false // "http:h": WHATWG special-scheme parsing finds a host
	}
	return false, true // opaque: mailto:, tel:, data: ...
}

// plainAuthority: host[:port] with an ASCII host name, IPv4 or bracketed IPv6 literal and a numeric port.
func plainAuthority(h string) bool {
	host, port := h, ""
	if strings.HasPrefix(h, "[") {
		end := strings.Index(h, "]")
		if end < 0 {
			return false
		}
		host, port = h[1:end], h[end+1:]
		for i := 0; i < len(host); i++ {
			c := host[i]
			if !(c >= '0' && c <= '9' || c >= 'a' && c <= 'f' || c >= 'A' && c <= 'F' || c == ':' || c == '.') {
				return false
			}
		}
		if host == "" {
			return false
		}
	} else {
		if i := strings.LastIndex(h, ":"); i >= 0 {
			host, port = h[:i], h[i:]
		}
		if host == "" {
			return false
		}
		for i := 0; i < len(host); i++ {
			c := host[i]
			if !(c >= '0' && c <= '9' || c >= 'a' && c <= 'z' || c >= 'A' && c <= 'Z' || c == '-' || c == '.') {
				return false
			}
		}
	}
	if port != "" {
		if port[0] != ':' {
			return false
		}
		for i := 1; i < len(port); i++ {
			if port[i] < '0' || port[i] > '9' {
				return false
			}
		}
	}
	return true
}
