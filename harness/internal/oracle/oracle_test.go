package oracle

import "testing"

func TestDecodeCSSEscapes(t *testing.T) {
	cases := map[string]string{
		`\72 ed`: "red", `\000072ed`: "red", `r\65 d`: "red", "r\\65\td": "red", "r\\65\r\nd": "red", `\red`: "red", `\g`: "g", `a\`: "a�",
		`\0`: "�", `\d800`: "�", `\110000`: "�", `\10ffff`: "\U0010ffff", `\\0064`: `\0064`, "a\\\nb": "ab", `\3c `: "<", `ari\20 al`: "ari al", `\;`: ";",
	}
	for in, want := range cases {
		if got := DecodeCSSEscapes(in); got != want {
			t.Errorf("DecodeCSSEscapes(%q) = %q, want %q", in, got, want)
		}
	}
}

func TestParseDeclarations(t *testing.T) {
	d := ParseDeclarations(`color: red; -webkit-Margin : 1px !important ;background:url("a;b") ; x{: 1; c\6flor: BLUE/*c*/`)
	if len(d) != 4 {
		t.Fatalf("want 4 pieces, got %d: %+v", len(d), d)
	}
	if d[0].Property != "color" || d[0].DecodedValue != "red" {
		t.Errorf("%+v", d[0])
	}
	if d[1].BareProperty != "margin" || !d[1].Important || d[1].RawValue != "1px" {
		t.Errorf("%+v", d[1])
	}
	if d[2].RawValue != `url("a;b")` {
		t.Errorf("%+v", d[2])
	}
	if !d[3].Malformed && d[3].Property != "x{" {
		t.Errorf("%+v", d[3])
	}
	// an unclosed block swallows the separator
	d = ParseDeclarations(`margin: {; height: x`)
	if len(d) != 1 || d[0].RawValue != "{; height: x" {
		t.Errorf("%+v", d)
	}
	d = ParseDeclarations(`a: red\; b: c`)
	if len(d) != 1 {
		t.Errorf("%+v", d)
	}
}

func TestClassifyURL(t *testing.T) {
	for in, want := range map[string]string{"javascript:alert(1)": "javascript", " \x01JaVa\tScRiPt:x": "javascript", "java\nscript:x": "javascript", "//h/x": "", "/p": "", "1http://x": "", "h.t-t+p:x": "h.t-t+p", "ht tp://x": "", ":x": "", "mailto:a@b": "mailto", "": ""} {
		if got := ClassifyURL(in).Scheme; got != want {
			t.Errorf("ClassifyURL(%q).Scheme = %q, want %q", in, got, want)
		}
	}
	if h, ok := HostQualified("http://example.org/"); !h || !ok {
		t.Error("http://example.org/")
	}
	if h, ok := HostQualified("/local"); h || !ok {
		t.Error("/local")
	}
	if _, ok := HostQualified("http:/one-slash"); ok {
		t.Error("http:/one-slash must be ambiguous")
	}
	for _, u := range []string{"//www.n:a-->bssolute", "http://exa mple.org/", "http://éxample.org/", "http://%65xample.org/", "//host:8x/"} {
		if _, ok := HostQualified(u); ok {
			t.Errorf("%q must be ambiguous", u)
		}
	}
	for _, u := range []string{"http://example.org:8080/a", "//cdn.example.net/x", "http://[::1]:80/", "https://user:pw@example.org/", "HTTP://EXAMPLE.ORG"} {
		if h, ok := HostQualified(u); !h || !ok {
			t.Errorf("%q must be host-qualified", u)
		}
	}
	if h, ok := HostQualified("mailto:a@example.org"); h || !ok {
		t.Error("mailto")
	}
}

func TestBalanced(t *testing.T) {
	ok, _ := Balanced(Tokens(`<p><br><img src=x><b>t</b><frame></p>`))
	if !ok {
		t.Error("void elements must not unbalance")
	}
	if ok, _ := Balanced(Tokens(`<a><b></a></b>`)); ok {
		t.Error("mis-nested accepted")
	}
	if ok, _ := Balanced(Tokens(`</a>`)); ok {
		t.Error("stray end tag accepted")
	}
}

func TestRelTokens(t *testing.T) {
	got := RelTokens("NoFollow\tx nofollow\x0bnoopener ")
	if len(got) != 2 || got[0] != "nofollow" || got[1] != "x nofollow\x0bnoopener" {
		t.Errorf("%q", got)
	}
}
