// Package oracle holds the independent re-readers the monitors judge outputs
// with: re-tokeniser, fragment re-parser, WHATWG-style URL scheme extractor,
// CSS declaration reader, rel-token reader and stack-balance checker.
package oracle

import (
	"strings"

	"golang.org/x/net/html"
	"golang.org/x/net/html/atom"
)

type Tok struct {
	Type  html.TokenType
	Name  string // tag name (lower-cased by the tokenizer), or "" for text/comment/doctype
	Data  string // decoded text, comment data, or doctype data
	Attrs []html.Attribute
	Raw   string
}

func (t Tok) IsTag() bool {
	return t.Type == html.StartTagToken || t.Type == html.EndTagToken || t.Type == html.SelfClosingTagToken
}

// Tokens re-reads s with a fresh x/net/html tokenizer (O-tok).
func Tokens(s string) []Tok {
	z := html.NewTokenizer(strings.NewReader(s))
	var out []Tok
	for {
		tt := z.Next()
		if tt == html.ErrorToken {
			return out
		}
		raw := string(z.Raw())
		t := z.Token()
		k := Tok{Type: t.Type, Data: t.Data, Raw: raw}
		if k.IsTag() {
			k.Name = t.Data
			k.Attrs = t.Attr
		}
		out = append(out, k)
	}
}

func EscapeAttr(s string) string { return html.EscapeString(s) }

// StyleAttrValues returns the decoded value of every style attribute in s.
func StyleAttrValues(s string) []string {
	var out []string
	for _, t := range Tokens(s) {
		if t.Type == html.StartTagToken || t.Type == html.SelfClosingTagToken {
			for _, a := range t.Attrs {
				if a.Key == "style" {
					out = append(out, a.Val)
				}
			}
		}
	}
	return out
}

// Text concatenates the decoded character data of a token stream.
func Text(toks []Tok) string {
	var b strings.Builder
	for _, t := range toks {
		if t.Type == html.TextToken {
			b.WriteString(t.Data)
		}
	}
	return b.String()
}

// Contexts are the ordinary flow-content containers outputs are re-parsed in (O-dom).
var Contexts = []string{"body", "div", "p", "td", "li", "span", "blockquote", "section"}

// Implied elements are created by the tree builder without a tag in the
// source; they are never judged.
var Implied = map[string]bool{"html": true, "head": true, "body": true, "tbody": true, "tr": true, "colgroup": true}

type DomNode struct {
	Type      html.NodeType
	Name      string // element name lower-cased
	Namespace string
	Attrs     []html.Attribute // Key has namespace prefix re-attached, lower-cased
	Data      string
}

// ParseIn parses s as a fragment inside the given context element and returns
// all nodes in document order.
func ParseIn(s, context string) ([]DomNode, error) {
	ctx := &html.Node{Type: html.ElementNode, Data: context, DataAtom: atom.Lookup([]byte(context))}
	nodes, err := html.ParseFragment(strings.NewReader(s), ctx)
	if err != nil {
		return nil, err
	}
	var out []DomNode
	var walk func(n *html.Node)
	walk = func(n *html.Node) {
		d := DomNode{Type: n.Type, Data: n.Data, Namespace: n.Namespace}
		if n.Type == html.ElementNode {
			d.Name = asciiLower(n.Data)
			for _, a := range n.Attr {
				k := asciiLower(a.Key)
				if a.Namespace != "" {
					k = asciiLower(a.Namespace) + ":" + k
				}
				d.Attrs = append(d.Attrs, html.Attribute{Key: k, Val: a.Val})
			}
		}
		out = append(out, d)
		for c := n.FirstChild; c != nil; c = c.NextSibling {
			walk(c)
		}
	}
	for _, n := range nodes {
		walk(n)
	}
	return out, nil
}

// Void elements of HTML.
var Void = map[string]bool{"area": true, "base": true, "br": true, "col": true, "embed": true, "hr": true, "img": true, "input": true,
	"link": true, "meta": true, "param": true, "source": true, "track": true, "wbr": true,
	// obsolete void elements the HTML parser also treats as void
	"basefont": true, "bgsound": true, "frame": true, "keygen": true}

// Balanced is O-bal: start tags push (unless void), end tags must match the
// top of the stack, self-closing tokens are neutral.
func Balanced(toks []Tok) (bool, string) {
	var st []string
	for _, t := range toks {
		switch t.Type {
		case html.StartTagToken:
			if !Void[t.Name] {
				st = append(st, t.Name)
			}
		case html.EndTagToken:
			if len(st) == 0 {
				return false, "stray </" + t.Name + ">"
			}
			if st[len(st)-1] != t.Name {
				return false, "</" + t.Name + "> closes <" + st[len(st)-1] + ">"
			}
			st = st[:len(st)-1]
		}
	}
	if len(st) != 0 {
		return false, "unclosed <" + st[len(st)-1] + ">"
	}
	return true, ""
}

// RelTokens is O-rel: ASCII-whitespace split, ASCII lower-cased.
func RelTokens(v string) []string {
	f := strings.FieldsFunc(v, func(r rune) bool { return r == ' ' || r == '\t' || r == '\n' || r == '\f' || r == '\r' })
	for i := range f {
		f[i] = asciiLower(f[i])
	}
	return f
}

func asciiLower(s string) string {
	b := []byte(s)
	for i, c := range b {
		if c >= 'A' && c <= 'Z' {
			b[i] = c + 32
		}
	}
	return string(b)
}

func ASCIILower(s string) string { return asciiLower(s) }

func HasToken(toks []string, t string) int {
	n := 0
	for _, x := range toks {
		if x == t {
			n++
		}
	}
	return n
}
