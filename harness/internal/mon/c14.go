package mon

import (
	"bufio"
	"encoding/json"
	"fmt"
	"math"
	"os"
	"runtime"
	"runtime/debug"
	"sort"
	"strconv"
	"strings"
	"sync"
	"syscall"
	"time"

	"github.com/microcosm-cc/bluemonday/css"

	"verif/harness/internal/core"
	"verif/harness/internal/gen"
	"verif/harness/internal/spec"
)

// C14 — sanitising always returns promptly and never panics.
//
// Ladders run in CPU-limited child processes (RLIMIT_CPU), cost is measured in
// deterministic allocation counts and per-thread CPU time; the panic hunt runs
// in child processes too, with recover() per call.

func init() {
	Registry["C14"] = runC14
	childModes["c14ladder"] = c14LadderChild
	childModes["c14hunt"] = c14HuntChild
	childModes["c14css"] = c14CSSChild
}

// c14CSSChild: args tier, chunk, nchunks. Calls every default CSS handler of the chunk's
// properties directly on all single pool tokens, token pairs and sampled triples, with
// recover() per call: a handler must return, never panic.
func c14CSSChild(args []string) int {
	if len(args) != 3 {
		return core.ExitInconclusive
	}
	chunk, _ := strconv.Atoi(args[1])
	nchunks, _ := strconv.Atoi(args[2])
	debug.SetMaxStack(64 << 20)
	ctx := core.NewCtx("C14", args[0], 1)
	pool := gen.CSSTokenPool()
	pool = append(pool, "repeat(3, 1px)", "repeat(3000000000, 1px)", "repeat(99999999999999999999, 1px)", "calc(1px + 2px)", "calc(99999999999999999999px * 99999999999999999999)", "minmax(1px, 2px)", "fit-content(10px)", "var(--x)",
		"99999999999999999999", "99999999999999999999px", "1e999", "-99999999999999999999%", strings.Repeat("9", 400), "steps(99999999999999999999, end)", "rgb(99999999999,1,1)", "span 99999999999999999999", "hue-rotate(99999999999999999999)", "matrix(99999999999999999999,2,3,4,5,6)")
	pool = append(pool, "", " ", "inset", "inset 1px", ",", "/", "(", ")", "url(", "\\", "-", ".", "#", "1px 1px", "a,b")
	pool = append(pool, "\"", "'", "\"\"", "''", "\" \"", "arial, \"", "\"a", "a\"", "[", "]", "{", "}", "!", "@", "%", "+", "*", ":", ";")
	second := pool
	if ctx.Quick() {
		second = nil
		for i, t := range pool {
			if i%7 == chunk%7 || len(t) <= 3 || strings.ContainsAny(t, "(") {
				second = append(second, t)
			}
		}
	}
	ctx.RunSeq("css-hunt", len(gen.CSSProperties), func(cs *core.Case) {
		if cs.Index%nchunks != chunk {
			return
		}
		prop := gen.CSSProperties[cs.Index]
		h := css.GetDefaultHandler(prop)
		n := 0
		call := func(v string) {
			defer func() {
				if e := recover(); e != nil {
					cs.Violate("C14:panic:css:"+handlerName(h), fmt.Sprintf("default handler of %q panicked on value %q: %v", prop, v, e),
						map[string]interface{}{"property": prop, "value": core.Show(v), "panic": fmt.Sprint(e), "stack": core.Clip(string(debug.Stack()), 3000)})
				}
			}()
			n++
			if strings.Count(v, ",")+strings.Count(v, " ") >= 4 && n%8 == 0 {
				fmt.Fprintf(os.Stderr, "HUNT-INPUT %q %q\n", prop, v)
			}
			h(v)
		}
		for _, a := range pool {
			call(a)
			for _, b := range second {
				call(a + " " + b)
			}
		}
		r := cs.R
		for i := 0; i < ctx.N(3000, 30000); i++ {
			k := 3 + r.Intn(3)
			parts := make([]string, k)
			for j := range parts {
				parts[j] = pool[r.Intn(len(pool))]
			}
			call(strings.Join(parts, gen.Pick(r, []string{" ", " ", ",", ", ", " / "})))
		}
		// every ordered triple (and a sample of 4- and 5-tuples) of tokens the handler accepts on their own:
		// component-count and position dependent code (shorthands, "edge offset" pairs) is reached
		var acc []string
		nWord, nOther := 0, 0
		for _, t := range pool {
			if len(t) == 0 || len(t) > 12 || strings.ContainsAny(t, " ,") || !h(t) {
				continue
			}
			// a spread of shapes: up to 9 keywords and up to 6 numbers / lengths / others
			if c := t[0]; (c >= 'a' && c <= 'z') && !strings.Contains(t, "(") {
				if nWord < 9 {
					nWord++
					acc = append(acc, t)
				}
			} else if nOther < 6 {
				nOther++
				acc = append(acc, t)
			}
		}
		for _, a := range acc {
			for _, b := range acc {
				call(a + " " + b)
				for _, c := range acc {
					call(a + " " + b + " " + c)
					if len(acc) <= 8 {
						call(a + ", " + b + ", " + c)
					}
				}
			}
		}
		// ... and of 26 words that are keywords or values of many properties, accepted here or not: a handler
		// taught a new form reads components it used to refuse
		for _, a := range cssCommonWords {
			for _, b := range cssCommonWords {
				for _, c := range cssCommonWords {
					call(a + " " + b + " " + c)
				}
			}
		}
		for i := 0; i < ctx.N(2000, 20000); i++ {
			k := 4 + r.Intn(4)
			parts := make([]string, k)
			for j := range parts {
				parts[j] = cssCommonWords[r.Intn(len(cssCommonWords))]
			}
			call(strings.Join(parts, " "))
		}
		for i := 0; i < ctx.N(400, 4000) && len(acc) > 1; i++ {
			k := 4 + r.Intn(3)
			parts := make([]string, k)
			for j := range parts {
				parts[j] = acc[r.Intn(len(acc))]
			}
			call(strings.Join(parts, " "))
		}
		// long structured values: one functional notation whose argument list is n components joined by an
		// operator or separator, with an acceptable and an unacceptable last component. Whatever a handler
		// does with the inside of a function has to stay cheap; the worker's CPU limit is the oracle.
		structured := 0
		for _, fn := range cssFunctionNames {
			for _, op := range []string{"+", "-", "*", "/", " + ", " - ", ",", ", ", " "} {
				for _, tok := range []string{"1px", "1", "10%", "red"} {
					for _, k := range []int{12, 24, 40, 64} {
						body := strings.TrimSuffix(strings.Repeat(tok+op, k), op)
						for _, v := range []string{fn + "(" + body + op + "9z)", fn + "(" + body + ")", fn + "(" + body + op + ")", "1px " + fn + "(" + body + op + "9z) 1px"} {
							if structured%64 == 0 {
								fmt.Fprintf(os.Stderr, "HUNT-INPUT %q %q\n", prop, v)
							}
							structured++
							call(v)
						}
					}
				}
			}
		}
		cs.EvalN(n)
		cs.Count("css_handler_hunt_calls", n)
		cs.Count("css_handler_structured_long_values", structured)
		cs.Nontrivial(core.Hash("css-hunt", prop))
	})
	fmt.Printf("\nVMON-CHILD-STATE %s\n", ctx.ExportState())
	return 0
}

var cssCommonWords = []string{"left", "right", "top", "bottom", "center", "auto", "none", "inherit", "0", "1", "10px", "50%", "1em", "-1px", "red", "#fff", "solid", "thin", "inset", "both", "1s", "all", "ease", "normal", "bold", "block"}

var cssFunctionNames = []string{"calc", "min", "max", "clamp", "var", "env", "attr", "url", "rgb", "rgba", "hsl", "hsla", "repeat", "minmax", "fit-content", "translate", "rotate", "scale", "matrix", "matrix3d", "perspective",
	"cubic-bezier", "steps", "drop-shadow", "blur", "hue-rotate", "linear-gradient", "radial-gradient", "counter", "format", "local", "inset", "circle", "polygon", "rect", "image-set", "x"}

// ---------------------------------------------------------------------------
// families

type family struct {
	name  string
	token bool // one-token-at-a-time ladder (ratio test) vs doubling ladder (exponent test)
	build func(param string, n int) ([]spec.Op, string)
}

func stylePolicy(props ...string) []spec.Op {
	return []spec.Op{{K: spec.KNew}, {K: spec.KAllowElements, Names: []string{"span"}}, {K: spec.KAllowStyles, Attrs: props, Matcher: "default", Scope: "global"}}
}

func everythingPolicy() []spec.Op {
	ops := []spec.Op{{K: spec.KUGC},
		{K: spec.KAllowStyles, Attrs: gen.CSSProperties, Matcher: "default", Scope: "global"},
		{K: spec.KAllowAttrs, Attrs: []string{"href", "src", "cite", "rel", "target", "sandbox", "crossorigin", "id", "class", "title", "srcset", "poster", "usemap", "longdesc", "background", "action", "formaction", "data", "ping", "sizes", "type", "download", "media"}, Scope: "global"},
		{K: spec.KAllowElements, Names: []string{"iframe", "audio", "video", "source", "link", "svg", "math", "form", "input", "button", "select", "option", "textarea", "font", "center"}},
		{K: spec.KAllowNoAttrs, Scope: "match", ElRe: `^my-`}, {K: spec.KAllowAttrs, Attrs: []string{"id"}, Re: `^[a-z]+$`, Scope: "match", ElRe: `^x-[a-z-]+$`},
		{K: spec.KAllowAttrs, Attrs: []string{"x"}, Scope: "match", ElRe: `-`},
		{K: spec.KDataURIImages}, {K: spec.KRewrite, Check: "proxy"}, {K: spec.KIFrames, Ints: []int{2, 6, 10}},
		{K: spec.KSwitch, Names: []string{spec.SwCrossOrigin}, B: true}, {K: spec.KSwitch, Names: []string{spec.SwNoReferrer}, B: true},
		{K: spec.KSwitch, Names: []string{spec.SwTargetBlank}, B: true}, {K: spec.KDataAttrs}, {K: spec.KComments},
		{K: spec.KSchemesMatching, Re: `^x-`}, {K: spec.KSwitch, Names: []string{spec.SwAddSpaces}, B: true}}
	return ops
}

func rep(s string, n int) string { return strings.Repeat(s, n) }

var families = []family{
	{"css-shorthand-repeat", true, func(param string, n int) ([]spec.Op, string) {
		// param = "property\x1ftoken": n repetitions of a token the handler accepts + a tail it rejects
		pt := strings.SplitN(param, "\x1f", 2)
		v := strings.TrimSpace(rep(pt[1]+" ", n)) + " 9z"
		return stylePolicy(pt[0]), `<span style="` + gen.CanonEscape(pt[0]+": "+v) + `">x</span>`
	}},
	{"css-shorthand-repeat-comma", true, func(param string, n int) ([]spec.Op, string) {
		pt := strings.SplitN(param, "\x1f", 2)
		v := strings.TrimSuffix(rep(pt[1]+", ", n), ", ") + ", 9z"
		return stylePolicy(pt[0]), `<span style="` + gen.CanonEscape(pt[0]+": "+v) + `">x</span>`
	}},
	{"css-shorthand-mixed", true, func(param string, n int) ([]spec.Op, string) {
		// param = "property\x1ftok1\x1etok2...": n components cycling through several accepted tokens and
		// through the separators " ", ", ", " / ", "," + a rejected tail
		pt := strings.SplitN(param, "\x1f", 2)
		toks := strings.Split(pt[1], "\x1e")
		seps := []string{" ", ", ", " ", " / ", ",", " "}
		var b strings.Builder
		for i := 0; i < n; i++ {
			b.WriteString(toks[i%len(toks)])
			b.WriteString(seps[(i*7+i/3)%len(seps)])
		}
		b.WriteString("9z")
		return stylePolicy(pt[0]), `<span style="` + gen.CanonEscape(pt[0]+": "+b.String()) + `">x</span>`
	}},
	{"nest-kept", false, func(_ string, n int) ([]spec.Op, string) {
		return []spec.Op{{K: spec.KUGC}}, rep("<b>", n) + "x" + rep("</b>", n)
	}},
	{"nest-dropped", false, func(_ string, n int) ([]spec.Op, string) {
		return []spec.Op{{K: spec.KUGC}}, rep("<x>", n) + "x" + rep("</x>", n)
	}},
	{"nest-bare-dropped", false, func(_ string, n int) ([]spec.Op, string) {
		return []spec.Op{{K: spec.KUGC}}, rep("<a>", n) + "x" + rep("</a>", n)
	}},
	{"nest-bare-dropped-unclosed", false, func(_ string, n int) ([]spec.Op, string) {
		return []spec.Op{{K: spec.KUGC}}, rep("<a><img>", n) + "x"
	}},
	{"nest-skip", false, func(_ string, n int) ([]spec.Op, string) {
		return []spec.Op{{K: spec.KUGC}}, rep("<object>", n) + "x" + rep("</object>", n)
	}},
	{"nest-pattern", false, func(_ string, n int) ([]spec.Op, string) {
		return everythingPolicy(), rep("<my-x><x-foo id=a>", n) + "x" + rep("</x-foo></my-x>", n)
	}},
	{"many-attributes", false, func(_ string, n int) ([]spec.Op, string) {
		var b strings.Builder
		b.WriteString("<a href=http://example.org/")
		for i := 0; i < n; i++ {
			fmt.Fprintf(&b, " a%d=v title=t%d", i, i)
		}
		return everythingPolicy(), b.String() + ">x</a>"
	}},
	{"rel-tokens", false, func(_ string, n int) ([]spec.Op, string) {
		return everythingPolicy(), `<a href="http://example.org/" target="_blank" rel="` + rep("nofollow x ", n) + `">x</a>`
	}},
	{"sandbox-tokens", false, func(_ string, n int) ([]spec.Op, string) {
		return everythingPolicy(), `<iframe src="http://example.org/" sandbox="` + rep("allow-forms allow-scripts bogus ", n) + `"></iframe>`
	}},
	{"css-escapes", false, func(_ string, n int) ([]spec.Op, string) {
		return stylePolicy("color", "font-family"), `<span style="font-family: ` + rep(`\61 \000062 \63`, n) + `">x</span>`
	}},
	{"css-declarations", false, func(_ string, n int) ([]spec.Op, string) {
		return stylePolicy("color", "width", "margin"), `<span style="` + rep("color: red; width: 10px; bogus: 1; margin: 1px 2px;", n) + `">x</span>`
	}},
	{"css-long-value", false, func(_ string, n int) ([]spec.Op, string) {
		return stylePolicy("font-family", "background", "transition"), `<span style="font-family: ` + rep("a", n) + `; background: ` + rep("(", n/4) + `; transition: ` + rep("a,", n/2) + `b">x</span>`
	}},
	{"long-tag-name-vs-patterns", false, func(_ string, n int) ([]spec.Op, string) {
		return everythingPolicy(), "<my-" + rep("a", n) + ">x</my-" + rep("a", n) + "><x-" + rep("b-", n/2) + " id=a>"
	}},
	{"query-parameters", false, func(_ string, n int) ([]spec.Op, string) {
		var b strings.Builder
		b.WriteString(`<a href="http://example.org/p?`)
		for i := 0; i < n; i++ {
			fmt.Fprintf(&b, "k%d=v%%20%d&amp;", i, i)
		}
		b.WriteString(`#f"><img src="/i?` + rep("a=1;", n) + `">`)
		return everythingPolicy(), b.String()
	}},
	{"data-uri", false, func(_ string, n int) ([]spec.Op, string) {
		return everythingPolicy(), `<img src="data:image/png;base64,` + rep("iVBORw0K\n", n) + `Ggo=">`
	}},
	{"unterminated", false, func(_ string, n int) ([]spec.Op, string) {
		return everythingPolicy(), rep("<", n) + rep("<!--", n/4) + rep("<a href=\"", n/8) + rep("&", n) + rep("<![CDATA[", n/8)
	}},
	{"entities", false, func(_ string, n int) ([]spec.Op, string) {
		return []spec.Op{{K: spec.KUGC}}, rep("&amp;&lt;&#x3c;&notit;&#0;", n)
	}},
	{"comments-and-doctypes", false, func(_ string, n int) ([]spec.Op, string) {
		return everythingPolicy(), rep("<!-- c --><!DOCTYPE x><?pi?>", n)
	}},
	{"data-attributes", false, func(_ string, n int) ([]spec.Op, string) {
		var b strings.Builder
		b.WriteString("<b data-" + rep("x", n) + "=v data-" + rep("data-", n/4) + "z=v")
		for i := 0; i < n/8; i++ {
			fmt.Fprintf(&b, " data-k%d=v data-xml%d=v data-A%d=v", i, i, i)
		}
		return everythingPolicy(), b.String() + ">x</b>"
	}},
	{"long-url-parts", false, func(_ string, n int) ([]spec.Op, string) {
		return everythingPolicy(), `<a href="http://` + rep("u", n/4) + `:p@` + rep("h.", n/4) + `example.org:80/` + rep("p/", n/4) + `?` + rep("q", n/4) + `#` + rep("f", n/4) + `">x</a><img src="` + rep("../", n/3) + `x.png"><blockquote cite="mailto:` + rep("a", n) + `@example.org">y</blockquote>`
	}},
	// one token of n x 160 bytes: 10 KiB .. 5 MiB (quick) / 20 MiB (thorough); size thresholds in buffers
	{"giant-text-token", false, func(_ string, n int) ([]spec.Op, string) {
		return []spec.Op{{K: spec.KUGC}}, "<p>" + rep(rep("x", 159)+" ", n) + "</p><b>tail</b>"
	}},
	{"giant-attribute-value", false, func(_ string, n int) ([]spec.Op, string) {
		return everythingPolicy(), `<p title="` + rep(rep("t", 159)+" ", n) + `">x</p><b>tail</b>`
	}},
	{"giant-comment", false, func(_ string, n int) ([]spec.Op, string) {
		return everythingPolicy(), "<!--" + rep(rep("c", 159)+" ", n) + "--><b>tail</b>"
	}},
	{"giant-rawtext", false, func(_ string, n int) ([]spec.Op, string) {
		return everythingPolicy(), "<textarea>" + rep(rep("<b>", 53)+" ", n) + "</textarea><b>tail</b>"
	}},
	{"style-attribute-repeated", false, func(_ string, n int) ([]spec.Op, string) {
		return stylePolicy("color", "font-family", "margin"), rep(`<span style="color: red; font-family: 'a b', c; margin: 1px 2px 3px 4px">x</span>`, n/8+1)
	}},
	{"same-name-nesting", false, func(_ string, n int) ([]spec.Op, string) {
		return []spec.Op{{K: spec.KUGC}}, rep("<a><a href=x>", n) + "x" + rep("</a></a>", n)
	}},
}

func familyByName(n string) *family {
	for i := range families {
		if families[i].name == n {
			return &families[i]
		}
	}
	return nil
}

// ---------------------------------------------------------------------------
// child: measure one ladder

type rung struct {
	N       int    `json:"n"`
	Len     int    `json:"len"`
	Mallocs uint64 `json:"mallocs"`
	Bytes   uint64 `json:"bytes"`
	CPUNs   int64  `json:"cpu_ns"`
	Out     int    `json:"out_len"`
	Panic   string `json:"panic,omitempty"`
}

func threadCPU() int64 {
	var ru syscall.Rusage
	const rusageThread = 1
	if err := syscall.Getrusage(rusageThread, &ru); err != nil {
		return 0
	}
	return ru.Utime.Nano() + ru.Stime.Nano()
}

func c14LadderChild(args []string) int {
	// args: family, param, n1,n2,...
	if len(args) != 3 {
		return core.ExitInconclusive
	}
	f := familyByName(args[0])
	if f == nil {
		return core.ExitInconclusive
	}
	debug.SetMaxStack(64 << 20)
	runtime.LockOSThread()
	w := bufio.NewWriter(os.Stdout)
	for _, ns := range strings.Split(args[2], ",") {
		n, _ := strconv.Atoi(ns)
		ops, in := f.build(args[1], n)
		p := spec.Build(ops)
		fmt.Fprintf(w, "RUNG-START %d %d\n", n, len(in))
		w.Flush()
		r := rung{N: n, Len: len(in)}
		func() {
			defer func() {
				if e := recover(); e != nil {
					r.Panic = fmt.Sprintf("%v\n%s", e, core.Clip(string(debug.Stack()), 3000))
				}
			}()
			for k := 0; k < 3; k++ {
				runtime.GC()
				var m0, m1 runtime.MemStats
				runtime.ReadMemStats(&m0)
				c0 := threadCPU()
				out := p.Sanitize(in)
				c1 := threadCPU()
				runtime.ReadMemStats(&m1)
				dm, db, dc := m1.Mallocs-m0.Mallocs, m1.TotalAlloc-m0.TotalAlloc, c1-c0
				if k == 0 || dm < r.Mallocs {
					r.Mallocs = dm
				}
				if k == 0 || db < r.Bytes {
					r.Bytes = db
				}
				if k == 0 || dc < r.CPUNs {
					r.CPUNs = dc
				}
				r.Out = len(out)
				if dc > int64(3*time.Second) {
					break // one measurement is enough on expensive rungs
				}
			}
		}()
		b, _ := json.Marshal(r)
		fmt.Fprintf(w, "RUNG %s\n", b)
		w.Flush()
		if r.Panic != "" {
			break
		}
	}
	return 0
}

// ---------------------------------------------------------------------------
// parent: analysis

type ladderJob struct {
	fam   *family
	param string
	ns    []int
	label string
}

func parseRungs(out []byte) (rungs []rung, startedN int) {
	startedN = -1
	for _, line := range strings.Split(string(out), "\n") {
		switch {
		case strings.HasPrefix(line, "RUNG-START "):
			f := strings.Fields(line)
			if len(f) >= 2 {
				startedN, _ = strconv.Atoi(f[1])
			}
		case strings.HasPrefix(line, "RUNG "):
			var r rung
			if json.Unmarshal([]byte(line[5:]), &r) == nil {
				rungs = append(rungs, r)
				if r.N == startedN {
					startedN = -1
				}
			}
		}
	}
	return
}

const (
	noiseMallocs = 3000
	noiseBytes   = 1 << 18
	noiseCPU     = int64(50 * time.Millisecond)
)

// growth analysis. Returns a description of super-quartic / exponential growth, or "".
func analyseLadder(token bool, rs []rung) (string, map[string]interface{}) {
	type series struct {
		name  string
		get   func(r rung) float64
		noise float64
	}
	ss := []series{{"heap objects", func(r rung) float64 { return float64(r.Mallocs) }, noiseMallocs},
		{"heap bytes", func(r rung) float64 { return float64(r.Bytes) }, noiseBytes},
		{"cpu", func(r rung) float64 { return float64(r.CPUNs) }, float64(noiseCPU)}}
	info := map[string]interface{}{}
	for _, s := range ss {
		bad, worst := 0, 0.0
		var exps []float64
		for i := 1; i < len(rs); i++ {
			a, b := s.get(rs[i-1]), s.get(rs[i])
			if a < s.noise || b < s.noise || rs[i].N <= rs[i-1].N {
				bad = 0
				continue
			}
			var over bool
			var val float64
			if token {
				// polynomial of degree <= 4 gives c(n+1)/c(n) <= (1+1/n)^4 <= 1.4 for n >= 12
				val = b / a
				step := float64(rs[i].N - rs[i-1].N)
				lim := math.Pow(1+step/float64(rs[i-1].N), 4) * 1.15
				over = rs[i-1].N >= 8 && val > lim
			} else {
				val = math.Log(b/a) / math.Log(float64(rs[i].N)/float64(rs[i-1].N))
				over = val > 4
			}
			exps = append(exps, math.Round(val*100)/100)
			if over {
				bad++
				if val > worst {
					worst = val
				}
				need := 2
				if token {
					need = 3
				}
				if bad >= need {
					kind := "growth exponent"
					if token {
						kind = "cost ratio per added token"
					}
					info["series"], info["values"] = s.name, exps
					return fmt.Sprintf("%s: %s reached %.2f on %d consecutive rungs (n=%d..%d)", s.name, kind, worst, bad, rs[i-bad].N, rs[i].N), info
				}
			} else {
				bad = 0
			}
		}
		info[s.name] = exps
	}
	return "", info
}

func runC14(ctx *core.Ctx) {
	ctx.Rule = "size ladders f(n) per adversarial family (each default CSS handler x tokens it accepts alone + rejected tail, climbing one token at a time; nesting of kept/dropped/bare-dropped/skip/pattern elements, attributes, rel/sandbox tokens, CSS escapes/declarations/long values, long tag names vs patterns, query parameters, data URIs, unterminated constructs, entities, comments; doubling to 256 KiB quick / 1 MiB thorough) measured in CPU-limited child processes by heap objects, heap bytes (MemStats deltas, min of 3) and per-thread CPU time; plus a panic hunt: hostile generator, corpus mutants and piece strings through all five entry-point variants on the everything-on policy and on random policies with recover() per call, in child processes; non-trivial = a measured rung above the noise floor or a hunt call on an input with markup, distinct by (family, parameter, n) / input"
	ctx.Assume("'time bounded by a low-degree polynomial' is restated as: no growth exponent > 4 (doubling ladders) and no per-token cost ratio above the degree-4 bound (token ladders) on >= 2 resp. 3 consecutive rungs above the noise floor; a family nobody drives is not covered", "CPU time, never wall time, decides; the wall-clock watchdog only yields inconclusive")
	cpuLimit := ctx.N(20, 40)
	var jobs []ladderJob
	// (a) css handlers: discover accepted tokens
	pool := gen.CSSTokenPool()
	tokLadder := func(max int) []int {
		var ns []int
		for n := 3; n <= max; n++ {
			ns = append(ns, n)
		}
		return ns
	}
	perProp := ctx.N(2, 6)
	r := ctx.StreamRand("css-tokens")
	for _, prop := range gen.CSSProperties {
		h := css.GetDefaultHandler(prop)
		var acc []string
		for _, t := range pool {
			if !strings.ContainsAny(t, " ,") && h(t) {
				acc = append(acc, t)
			}
		}
		if len(acc) == 0 {
			continue
		}
		r.Shuffle(len(acc), func(i, j int) { acc[i], acc[j] = acc[j], acc[i] })
		// prefer short tokens (more repetitions per byte) and always include a length if accepted
		sort.SliceStable(acc, func(i, j int) bool { return len(acc[i]) < len(acc[j]) })
		k := perProp
		if k > len(acc) {
			k = len(acc)
		}
		for _, t := range acc[:k] {
			jobs = append(jobs, ladderJob{familyByName("css-shorthand-repeat"), prop + "\x1f" + t, tokLadder(ctx.N(26, 40)), prop + " x " + t})
		}
		if k > 0 {
			// the same repetition far beyond the one-token-at-a-time ladder, two tokens at a time:
			// bookkeeping that is sound for short values only (a fixed-width table, a counter that
			// wraps, a cache with a size cap) shows where the rungs cross its width (56..88 quick,
			// ..136 thorough; the ratio test scales its bound with the step)
			var long []int
			for n := 56; n <= ctx.N(88, 136); n += 2 {
				long = append(long, n)
			}
			jobs = append(jobs, ladderJob{familyByName("css-shorthand-repeat"), prop + "\x1f" + acc[0], long, prop + " x " + acc[0] + " (long)"})
		}
		if len(acc) >= 2 {
			mix := acc
			if len(mix) > 4 {
				mix = mix[:4]
			}
			jobs = append(jobs, ladderJob{familyByName("css-shorthand-mixed"), prop + "\x1f" + strings.Join(mix, "\x1e"), tokLadder(ctx.N(26, 40)), prop + " x mixed " + strings.Join(mix, "|")})
		}
		if k > 0 {
			// comma-separated layers / lists: one ladder per property
			jobs = append(jobs, ladderJob{familyByName("css-shorthand-repeat-comma"), prop + "\x1f" + acc[0], tokLadder(ctx.N(26, 40)), prop + " x " + acc[0] + " (comma)"})
		}
	}
	// (b) structural families: doubling ladders
	maxN := ctx.N(1<<15, 1<<17)
	for i := range families {
		f := &families[i]
		if f.token {
			continue
		}
		var ns []int
		for n := 64; n <= maxN; n *= 2 {
			ns = append(ns, n)
		}
		jobs = append(jobs, ladderJob{f, "", ns, f.name})
	}
	ctx.Extra("ladders", len(jobs))
	var wg sync.WaitGroup
	sem := make(chan struct{}, ctx.Workers)
	for ji, job := range jobs {
		if ctx.Replaying && !(ctx.ReplayStream == "ladder" && ctx.ReplayIndex == ji) {
			continue
		}
		wg.Add(1)
		sem <- struct{}{}
		go func(ji int, job ladderJob) {
			defer wg.Done()
			defer func() { <-sem }()
			cs := &core.Case{Ctx: ctx, Stream: "ladder", Index: ji}
			nsStr := make([]string, len(job.ns))
			for i, n := range job.ns {
				nsStr[i] = strconv.Itoa(n)
			}
			res := core.RunChild("c14ladder", []string{job.fam.name, job.param, strings.Join(nsStr, ",")}, cpuLimit, cpuLimit*30+120)
			rungs, started := parseRungs(res.Stdout)
			cs.EvalN(len(rungs) * 3)
			cs.Count("ladders_run", 1)
			cs.Count("rungs_measured", len(rungs))
			wit := func() map[string]interface{} {
				ops, in := job.fam.build(job.param, job.ns[0])
				return map[string]interface{}{"family": job.fam.name, "parameter": strings.ReplaceAll(job.param, "\x1f", " x "), "rungs": rungs, "policy": spec.Describe(ops), "smallest_input": core.Show(core.Clip(in, 400)), "cpu_limit_s": cpuLimit}
			}
			sigParam := job.fam.name
			if job.param != "" {
				sigParam += ":" + handlerName(css.GetDefaultHandler(strings.SplitN(job.param, "\x1f", 2)[0]))
			}
			for _, rg := range rungs {
				if float64(rg.Mallocs) >= noiseMallocs || rg.CPUNs >= noiseCPU {
					cs.Nontrivial(core.Hash(job.fam.name, job.param, strconv.Itoa(rg.N)))
				}
				if rg.Panic != "" {
					w := wit()
					w["panic"] = rg.Panic
					cs.Violate("C14:panic:"+sigParam, fmt.Sprintf("Sanitize panicked on family %s (%s) at n=%d: %s", job.fam.name, job.label, rg.N, core.Clip(rg.Panic, 600)), w)
				}
			}
			switch {
			case res.TimedOut:
				ctx.Inconclusive(fmt.Sprintf("ladder %s hit the wall-clock watchdog", job.label))
			case res.CPUKilled || (res.Signal != "" && started >= 0):
				prev := int64(0)
				if len(rungs) > 0 {
					prev = rungs[len(rungs)-1].CPUNs
				}
				why, _ := analyseLadder(job.fam.token, rungs)
				if prev < int64(500*time.Millisecond) || why != "" {
					w := wit()
					w["killed_at_n"], w["signal"] = started, res.Signal
					cs.Violate("C14:cpu-limit:"+sigParam, fmt.Sprintf("family %s (%s): the rung n=%d exhausted the %d s CPU limit (signal %s) while the previous rung cost %.3f s%s", job.fam.name, job.label, started, cpuLimit, res.Signal, float64(prev)/1e9, map[bool]string{true: "; " + why, false: ""}[why != ""]), w)
				} else {
					ctx.Inconclusive(fmt.Sprintf("ladder %s: rung n=%d exhausted the CPU limit after an expensive but polynomial-looking previous rung (%.1f s)", job.label, started, float64(prev)/1e9))
				}
			case res.Exit != 0 && started >= 0:
				w := wit()
				w["stderr"] = core.Clip(res.Stderr, 4000)
				first := strings.SplitN(strings.TrimSpace(res.Stderr), "\n", 2)[0]
				cs.Violate("C14:fatal:"+sigParam, fmt.Sprintf("family %s (%s): the worker died at n=%d (exit %d): %s", job.fam.name, job.label, started, res.Exit, core.Clip(first, 200)), w)
			case res.Exit != 0:
				ctx.Inconclusive(fmt.Sprintf("ladder child %s failed before any rung (exit %d): %s", job.label, res.Exit, core.Clip(res.Stderr, 500)))
			default:
				if why, info := analyseLadder(job.fam.token, rungs); why != "" {
					w := wit()
					w["analysis"] = info
					cs.Violate("C14:growth:"+sigParam, fmt.Sprintf("family %s (%s): %s", job.fam.name, job.label, why), w)
				}
			}
			if len(rungs) > 3 && ctx.WantSample("ladder:"+job.fam.name) {
				last := rungs[len(rungs)-1]
				cs.Sample("ladder:"+job.fam.name, map[string]interface{}{"family": job.fam.name, "parameter": strings.ReplaceAll(job.param, "\x1f", " x "), "rungs": len(rungs), "largest_n": last.N, "largest_input_bytes": last.Len, "heap_objects": last.Mallocs, "cpu_ms": float64(last.CPUNs) / 1e6})
			}
		}(ji, job)
	}
	wg.Wait()

	// panic hunt -----------------------------------------------------------------
	nBatch := ctx.N(32, 256)
	perBatch := ctx.N(6000, 30000)
	var hw sync.WaitGroup
	for b := 0; b < nBatch; b++ {
		if ctx.Replaying && !(ctx.ReplayStream == "hunt" && ctx.ReplayIndex == b) {
			continue
		}
		hw.Add(1)
		sem <- struct{}{}
		go func(b int) {
			defer hw.Done()
			defer func() { <-sem }()
			huntCPU := ctx.N(90, 400)
			res := core.RunChild("c14hunt", []string{fmt.Sprint(ctx.Seed), fmt.Sprint(b), fmt.Sprint(perBatch)}, huntCPU, huntCPU*4+300)
			cs := &core.Case{Ctx: ctx, Stream: "hunt", Index: b}
			merged := false
			if j := strings.LastIndex(string(res.Stdout), "\nVMON-CHILD-STATE "); j >= 0 {
				if ctx.MergeState([]byte(strings.TrimSpace(string(res.Stdout)[j+len("\nVMON-CHILD-STATE "):]))) == nil {
					merged = true
				}
			}
			switch {
			case res.TimedOut:
				ctx.Inconclusive(fmt.Sprintf("hunt batch %d hit the wall-clock watchdog", b))
			case res.CPUKilled:
				// a few thousand small inputs need seconds; exhausting minutes of CPU means one call stalled
				cs.Violate("C14:cpu-limit:hunt", fmt.Sprintf("panic-hunt worker %d exhausted its %d s CPU limit on %d small inputs (signal %s): a call did not return promptly; last logged input: %s", b, huntCPU, perBatch, res.Signal, lastInput(res.Stderr)),
					map[string]interface{}{"stderr": core.Clip(res.Stderr, 6000), "last_input": lastInput(res.Stderr)})
			case !merged:
				first := strings.SplitN(strings.TrimSpace(res.Stderr), "\n", 2)[0]
				cs.Violate("C14:fatal:hunt:"+fatalClass(first), fmt.Sprintf("panic-hunt worker %d died (exit %d, signal %q): %s", b, res.Exit, res.Signal, core.Clip(first, 300)), map[string]interface{}{"stderr": core.Clip(res.Stderr, 6000), "last_input": lastInput(res.Stderr)})
			}
		}(b)
	}
	// direct CSS handler hunt in 16 child chunks
	const cssChunks = 16
	for c := 0; c < cssChunks; c++ {
		if ctx.Replaying && !(ctx.ReplayStream == "css-hunt" && ctx.ReplayIndex%cssChunks == c) {
			continue
		}
		hw.Add(1)
		sem <- struct{}{}
		go func(c int) {
			defer hw.Done()
			defer func() { <-sem }()
			cssCPU := ctx.N(120, 600)
			res := core.RunChild("c14css", []string{ctx.Tier, fmt.Sprint(c), fmt.Sprint(cssChunks)}, cssCPU, cssCPU*4+300)
			merged := false
			if j := strings.LastIndex(string(res.Stdout), "\nVMON-CHILD-STATE "); j >= 0 {
				if ctx.MergeState([]byte(strings.TrimSpace(string(res.Stdout)[j+len("\nVMON-CHILD-STATE "):]))) == nil {
					merged = true
				}
			}
			if res.TimedOut {
				ctx.Inconclusive(fmt.Sprintf("css hunt chunk %d hit the wall-clock watchdog", c))
			} else if res.CPUKilled {
				cs := &core.Case{Ctx: ctx, Stream: "css-hunt", Index: c}
				cs.Violate("C14:cpu-limit:css-hunt", fmt.Sprintf("css handler hunt worker %d exhausted its %d s CPU limit on values of at most 5 components (signal %s): a handler call did not return promptly; last logged value: %s", c, cssCPU, res.Signal, lastInput(res.Stderr)), map[string]interface{}{"stderr": core.Clip(res.Stderr, 4000)})
			} else if !merged {
				first := strings.SplitN(strings.TrimSpace(res.Stderr), "\n", 2)[0]
				cs := &core.Case{Ctx: ctx, Stream: "css-hunt", Index: c}
				cs.Violate("C14:fatal:css-hunt:"+fatalClass(first), fmt.Sprintf("css handler hunt worker %d died (exit %d, signal %q): %s", c, res.Exit, res.Signal, core.Clip(first, 300)), map[string]interface{}{"stderr": core.Clip(res.Stderr, 6000)})
			}
		}(c)
	}
	hw.Wait()
	ctx.Floor("css_handler_hunt_calls", 1000000)
	ctx.MinNontrivial(int64(ctx.N(20000, 200000)))
	ctx.Floor("ladders_run", int64(len(jobs))*9/10)
	ctx.Floor("rungs_measured", int64(len(jobs))*5)
	ctx.Floor("hunt_calls", int64(nBatch*perBatch)*9/10)
}

func fatalClass(s string) string {
	switch {
	case strings.Contains(s, "stack overflow") || strings.Contains(s, "stack exceeds"):
		return "stack-overflow"
	case strings.Contains(s, "out of memory"):
		return "out-of-memory"
	case strings.Contains(s, "concurrent map"):
		return "concurrent-map"
	}
	return "other"
}

func lastInput(stderr string) string {
	i := strings.LastIndex(stderr, "HUNT-INPUT ")
	if i < 0 {
		return ""
	}
	return core.Clip(strings.SplitN(stderr[i:], "\n", 2)[0], 3000)
}

// c14HuntChild: args seed, batch, count.
func c14HuntChild(args []string) int {
	if len(args) != 3 {
		return core.ExitInconclusive
	}
	seed, _ := strconv.ParseInt(args[0], 10, 64)
	batch, _ := strconv.Atoi(args[1])
	count, _ := strconv.Atoi(args[2])
	debug.SetMaxStack(64 << 20)
	ctx := core.NewCtx("C14", "quick", seed)
	ctx.Workers = 1
	core.PanicHandler = nil
	ctx.RunSeq("hunt", batch+1, func(cs *core.Case) {
		if cs.Index != batch {
			return
		}
		r := cs.R
		envs := []*Env{NewEnv(everythingPolicy()), NewEnv([]spec.Op{{K: spec.KUGC}}), NewEnv(spec.CmdHTMLEmailOps())}
		lc := core.LocalCounts{}
		for i := 0; i < count; i++ {
			var env *Env
			if i%8 == 0 {
				// a fresh random policy every 8 calls (and used for half of them): option combinations
				// such as "link option on, URL checking switched off again" only exist there
				ops := spec.RandomOps(r, spec.GenOpts{Styles: true, ScriptStyle: i%64 == 0})
				if i%24 == 0 {
					ops = append(ops, spec.Op{K: spec.KSwitch, Names: []string{spec.SwParseable}, B: false})
				}
				if i%40 == 0 {
					ops = append(ops, spec.Op{K: spec.KUnsafe, B: true})
				}
				env = NewEnv(ops)
				envs = append(envs[:3], env, env, env)
			} else {
				env = envs[r.Intn(len(envs))]
			}
			var in string
			switch r.Intn(10) {
			case 0:
				in = gen.PieceString(r.Intn(gen.PieceCount(6)), 6)
			case 1, 2:
				in = URLHeavyDoc(r)
			default:
				in = env.HostileInput(r)
			}
			func() {
				defer func() {
					if e := recover(); e != nil {
						st := string(debug.Stack())
						cs.Violate("C14:panic:"+panicSite(st), fmt.Sprintf("%s panicked: %v; input=%q", EntryNames[i%5], e, core.Clip(in, 300)),
							map[string]interface{}{"policy": spec.Describe(env.Ops), "ops": env.Ops, "input": core.Show(in), "panic": fmt.Sprint(e), "stack": core.Clip(st, 4000), "entry_point": EntryNames[i%5]})
					}
				}()
				if i%97 == 0 || strings.Count(in, ",") > 12 || strings.Count(in, " ") > 60 {
					// keep the most recent input recoverable if the process dies unrecoverably
					fmt.Fprintf(os.Stderr, "HUNT-INPUT %q\n", core.Clip(in, 2000))
				}
				out := SanitizeVia(env.Pol, in, i)
				lc["hunt_calls"]++
				if strings.Contains(in, "<") {
					cs.Nontrivial(core.Hash("hunt", in))
				}
				_ = out
			}()
			cs.Eval()
		}
		cs.Flush(lc)
	})
	fmt.Printf("\nVMON-CHILD-STATE %s\n", ctx.ExportState())
	return 0
}

// panicSite: first non-runtime frame inside the sanitiser or its dependencies.
func panicSite(stack string) string {
	for _, line := range strings.Split(stack, "\n") {
		l := strings.TrimSpace(line)
		if strings.HasPrefix(l, "github.com/microcosm-cc/bluemonday") || strings.HasPrefix(l, "github.com/aymerick/douceur") || strings.HasPrefix(l, "github.com/gorilla/css") || strings.HasPrefix(l, "golang.org/x/net/html") {
			if i := strings.LastIndex(l, "("); i > 0 {
				l = l[:i] // drop the argument list, keep "(*Policy).sanitizeAttrs"
			}
			if i := strings.LastIndex(l, "/"); i >= 0 {
				l = l[i+1:]
			}
			return l
		}
	}
	return "unknown-site"
}
