package mon

import (
	"fmt"
	"strings"

	"golang.org/x/net/html"

	"verif/harness/internal/core"
	"verif/harness/internal/gen"
	"verif/harness/internal/oracle"
	"verif/harness/internal/spec"
)

// Obs is one observed execution: policy, input, output and both token streams.
type Obs struct {
	Env   *Env
	In    string
	Out   string
	Entry int
	InT   []oracle.Tok
	OutT  []oracle.Tok
}

func (o *Obs) Witness() map[string]interface{} {
	return map[string]interface{}{"policy": spec.Describe(o.Env.Ops), "ops": o.Env.Ops, "input": core.Show(o.In), "output": core.Show(o.Out), "entry_point": EntryNames[o.Entry%5]}
}

func observe(env *Env, in string, entry int) *Obs {
	out := SanitizeVia(env.Pol, in, entry)
	return &Obs{Env: env, In: in, Out: out, Entry: entry, InT: oracle.Tokens(in), OutT: oracle.Tokens(out)}
}

// Families of fixed policies used with the bounded-exhaustive piece strings.
func policyFamilies() map[string][]spec.Op {
	el := func(n ...string) spec.Op { return spec.Op{K: spec.KAllowElements, Names: n} }
	at := func(scope string, names []string, attrs ...string) spec.Op {
		return spec.Op{K: spec.KAllowAttrs, Attrs: attrs, Scope: scope, Names: names}
	}
	return map[string][]spec.Op{
		"strict": {{K: spec.KStrict}},
		"ugc":    {{K: spec.KUGC}},
		"pattern-everything": {{K: spec.KNew}, {K: spec.KAllowNoAttrs, Scope: "match", ElRe: `^[a-z]+$`},
			{K: spec.KAllowAttrs, Attrs: []string{"href", "x"}, Scope: "match", ElRe: `^[a-z]+$`}},
		"foreign": {{K: spec.KNew}, el("svg", "math", "mtext", "mi", "desc", "foreignobject", "annotation-xml", "b", "a", "p", "table", "td", "tr", "select", "option", "title"),
			{K: spec.KAllowNoAttrs, Scope: "els", Names: []string{"a", "mtext", "mi", "math", "desc", "foreignobject", "annotation-xml"}}, at("global", nil, "href", "x")},
		"rawtext": {{K: spec.KNew}, el("textarea", "title", "xmp", "plaintext", "iframe", "noscript", "noembed", "noframes", "a", "b"),
			{K: spec.KAllowNoAttrs, Scope: "els", Names: []string{"a", "xmp", "plaintext", "iframe", "noscript", "noembed", "noframes"}}, at("global", nil, "href", "x")},
		"comments-spaces": {{K: spec.KNew}, el("a", "b", "x"), {K: spec.KAllowNoAttrs, Scope: "els", Names: []string{"a", "x"}}, {K: spec.KComments},
			{K: spec.KSwitch, Names: []string{spec.SwAddSpaces}, B: true}, at("els", []string{"a"}, "href")},
		"keep-content": {{K: spec.KNew}, el("b"), {K: spec.KKeep, Names: []string{"title", "iframe", "noscript", "object", "noembed", "noframes"}},
			{K: spec.KSwitch, Names: []string{spec.SwAddSpaces}, B: true}},
	}
}

var familyOrder = []string{"strict", "ugc", "pattern-everything", "foreign", "rawtext", "comments-spaces", "keep-content"}

// docWorkloadOpts is docWorkload with per-case generator options and no extras.
func docWorkloadOpts(ctx *core.Ctx, opts func(cs *core.Case) spec.GenOpts, nPol, nIn int, judge func(cs *core.Case, ob *Obs, lc core.LocalCounts)) {
	ctx.Run("policy-docs", nPol, func(cs *core.Case) {
		o := opts(cs)
		ops := spec.RandomOps(cs.R, o)
		if cs.Index%3 == 0 {
			ops = append(ops, spec.Op{K: spec.KSwitch, Names: []string{spec.SwAddSpaces}, B: true})
		}
		env := NewEnv(ops)
		lc := core.LocalCounts{}
		for i := 0; i < nIn; i++ {
			ob := observe(env, env.HostileInput(cs.R), cs.Index+i)
			cs.Eval()
			judge(cs, ob, lc)
		}
		lc["policies"]++
		cs.Flush(lc)
	})
}

// docWorkload drives policies × inputs and hands every observation to judge.
// nPol random policies with nIn inputs each, plus the piece-string families.
func docWorkload(ctx *core.Ctx, o spec.GenOpts, nPol, nIn int, pieceL int, families []string, extraInput func(cs *core.Case, env *Env, i int) (string, bool), judge func(cs *core.Case, ob *Obs, lc core.LocalCounts)) {
	ctx.Run("policy-docs", nPol, func(cs *core.Case) {
		env := NewEnv(spec.RandomOps(cs.R, o))
		lc := core.LocalCounts{}
		for i := 0; i < nIn; i++ {
			var in string
			ok := false
			if extraInput != nil {
				in, ok = extraInput(cs, env, i)
			}
			if !ok {
				in = env.HostileInput(cs.R)
			}
			ob := observe(env, in, cs.Index+i)
			cs.Eval()
			judge(cs, ob, lc)
		}
		lc["policies"]++
		cs.Flush(lc)
	})
	piecesWorkload(ctx, pieceL, families, judge)
}

// piecesWorkload: every string of exactly L lexical pieces against fixed policy families.
func piecesWorkload(ctx *core.Ctx, pieceL int, families []string, judge func(cs *core.Case, ob *Obs, lc core.LocalCounts)) {
	if pieceL > 0 {
		fams := policyFamilies()
		total := gen.PieceCount(pieceL)
		const chunk = 4096
		for _, f := range families {
			env := NewEnv(fams[f])
			ctx.Run(fmt.Sprintf("pieces%d:%s", pieceL, f), (total+chunk-1)/chunk, func(cs *core.Case) {
				lc := core.LocalCounts{}
				for idx := cs.Index * chunk; idx < (cs.Index+1)*chunk && idx < total; idx++ {
					in := gen.PieceString(idx, pieceL)
					ob := observe(env, in, idx)
					cs.Eval()
					lc["piece_strings"]++
					judge(cs, ob, lc)
				}
				cs.Flush(lc)
			})
		}
	}
}

// ---------------------------------------------------------------------------
// shared judgements

func nameCategory(n string) string {
	switch {
	case spec.IsScriptStyle(n):
		return "script-style"
	case rawTextNames[n]:
		return "raw-text"
	case oracle.Void[n]:
		return "void"
	case strings.Contains(n, "-"):
		return "custom"
	case foreignNames[n]:
		return "foreign"
	}
	return "ordinary"
}

var rawTextNames = map[string]bool{"textarea": true, "title": true, "xmp": true, "plaintext": true, "iframe": true, "noscript": true, "noembed": true, "noframes": true}
var foreignNames = func() map[string]bool {
	m := map[string]bool{}
	for _, n := range gen.ElForeign {
		m[n] = true
	}
	return m
}()

func tokKind(t html.TokenType) string {
	switch t {
	case html.StartTagToken:
		return "start"
	case html.EndTagToken:
		return "end"
	case html.SelfClosingTagToken:
		return "selfclosing"
	case html.CommentToken:
		return "comment"
	case html.DoctypeToken:
		return "doctype"
	}
	return "text"
}

// tagSubsequence: are the output's tags an ordered subsequence of the input's
// tags by (type, name)? Returns the first output tag that is not.
func tagSubsequence(in, out []oracle.Tok) (bool, string) {
	i := 0
	for _, t := range out {
		if !t.IsTag() {
			continue
		}
		found := false
		for i < len(in) {
			u := in[i]
			i++
			if u.IsTag() && u.Type == t.Type && u.Name == t.Name {
				found = true
				break
			}
		}
		if !found {
			return false, fmt.Sprintf("%s tag <%s>", tokKind(t.Type), t.Name)
		}
	}
	return true, ""
}

func hasTagLike(in string) bool { return strings.Contains(in, "<") }
