package mon

import (
	"fmt"
	"math/rand"
	"sort"
	"strconv"
	"strings"

	"github.com/microcosm-cc/bluemonday"

	"verif/harness/internal/core"
	"verif/harness/internal/gen"
	"verif/harness/internal/spec"
)

// C17 — a policy is its rule set: independent of call order, case and other instances.

func init() {
	Registry["C17"] = runC17
	childModes["c17"] = func(args []string) int {
		if len(args) != 3 {
			return core.ExitInconclusive
		}
		seed, _ := strconv.ParseInt(args[0], 10, 64)
		ctx := core.NewCtx("C17", args[1], seed)
		if args[2] == "sequential" {
			ctx.Workers = 1
		}
		c17Work(ctx, args[2])
		fmt.Printf("\nVMON-CHILD-STATE %s\n", ctx.ExportState())
		return 0
	}
}

// runC17 runs the work in two child processes: first the independence stream alone on one
// goroutine (so that a table shared between instances shows up as a changed output), then
// everything on all cores. Building independent policies on different goroutines is legal;
// if that crashes the process (runtime "concurrent map" throw) the instances share state.
func runC17(ctx *core.Ctx) {
	c17Describe(ctx)
	if ctx.Replaying {
		c17Work(ctx, "all")
		return
	}
	for _, part := range []string{"sequential", "parallel"} {
		res := core.RunChild("c17", []string{fmt.Sprint(ctx.Seed), ctx.Tier, part}, 0, ctx.N(900, 4000))
		merged := false
		if j := strings.LastIndex(string(res.Stdout), "\nVMON-CHILD-STATE "); j >= 0 {
			if ctx.MergeState([]byte(strings.TrimSpace(string(res.Stdout)[j+len("\nVMON-CHILD-STATE "):]))) == nil {
				merged = true
			}
		}
		cs := &core.Case{Ctx: ctx, Stream: "independence", Index: 0}
		switch {
		case res.TimedOut:
			ctx.Inconclusive("C17 worker (" + part + ") hit the wall-clock watchdog")
		case strings.Contains(res.Stderr, "fatal error: concurrent map"):
			cs.Violate("C17:independence:fatal-concurrent-construction", "building and using independent policies on different goroutines crashed the process: the instances share a table\n"+core.Clip(res.Stderr, 2500), map[string]interface{}{"stderr": core.Clip(res.Stderr, 8000), "part": part})
		case !merged:
			ctx.Inconclusive(fmt.Sprintf("C17 worker (%s) died (exit %d, signal %q) without a result:\n%s", part, res.Exit, res.Signal, core.Clip(res.Stderr, 2000)))
		}
	}
	c17Floors(ctx)
}

func isRuleOp(o spec.Op) bool {
	switch o.K {
	case spec.KAllowElements, spec.KAllowElsMatching, spec.KAllowAttrs, spec.KAllowNoAttrs, spec.KAllowStyles, spec.KSchemesMatching,
		spec.KStdAttrs, spec.KStyling, spec.KLists, spec.KTables, spec.KDataAttrs, spec.KComments:
		return true
	}
	return false
}

type variation struct{ order, casing, dup, toggle, fresh bool }

func (v variation) String() string {
	var p []string
	if v.order {
		p = append(p, "order")
	}
	if v.casing {
		p = append(p, "case")
	}
	if v.dup {
		p = append(p, "duplicate")
	}
	if v.toggle {
		p = append(p, "toggle")
	}
	if v.fresh {
		p = append(p, "regexp-identity")
	}
	if len(p) == 0 {
		return "none"
	}
	return strings.Join(p, "+")
}

// vary returns a history that is rule-equivalent to ops.
func vary(r *rand.Rand, ops []spec.Op, v variation) []spec.Op {
	base := ops[0]
	var rules, sws []spec.Op
	for _, o := range ops[1:] {
		if isRuleOp(o) {
			rules = append(rules, o)
		} else {
			sws = append(sws, o)
		}
	}
	if v.dup {
		n := len(rules)
		for i := 0; i < n; i++ {
			if r.Intn(3) == 0 {
				rules = append(rules, rules[i])
			}
		}
	}
	if v.toggle {
		var out []spec.Op
		registered := map[string]bool{}
		if base.K == spec.KUGC {
			registered["http"], registered["https"], registered["mailto"] = true, true, true // UGCPolicy
		}
		for _, o := range sws {
			switch o.K {
			case spec.KSwitch:
				for k := 0; k < r.Intn(3); k++ {
					out = append(out, spec.Op{K: spec.KSwitch, Names: o.Names, B: r.Intn(2) == 0})
				}
			case spec.KSkip:
				if r.Intn(2) == 0 {
					out = append(out, spec.Op{K: spec.KKeep, Names: o.Names})
				}
			case spec.KKeep:
				if r.Intn(2) == 0 {
					out = append(out, spec.Op{K: spec.KSkip, Names: o.Names})
				}
			case spec.KSandbox:
				if r.Intn(2) == 0 {
					out = append(out, spec.Op{K: spec.KSandbox, Ints: r.Perm(14)[:r.Intn(5)]})
				}
			case spec.KRewrite:
				if r.Intn(2) == 0 {
					out = append(out, o)
				}
			// scheme registrations: the most recent call for a scheme decides. A plain registration discards
			// validators registered before it; a validator registered after a plain registration restricts it.
			// (Both calls switch URL parsing on, so the inserted call changes nothing else.)
			case spec.KSchemes:
				if r.Intn(2) == 0 && len(o.Names) > 0 {
					out = append(out, spec.Op{K: spec.KSchemeCustom, Names: []string{o.Names[r.Intn(len(o.Names))]}, Check: gen.Pick(r, []string{"never", "host-cdn", "no-query"})})
				}
			case spec.KStdURLs, spec.KImages:
				if r.Intn(2) == 0 {
					out = append(out, spec.Op{K: spec.KSchemeCustom, Names: []string{gen.Pick(r, []string{"http", "https", "mailto", "HTTPS"})}, Check: gen.Pick(r, []string{"never", "host-cdn", "no-query"})})
				}
			// validators accumulate (any one may accept), so a plain registration may only be slipped in
			// before the FIRST registration of that scheme
			case spec.KSchemeCustom:
				if r.Intn(2) == 0 && !registered[strings.ToLower(o.Names[0])] {
					out = append(out, spec.Op{K: spec.KSchemes, Names: []string{o.Names[0]}})
				}
			case spec.KDataURIImages:
				if r.Intn(2) == 0 && !registered["data"] {
					out = append(out, spec.Op{K: spec.KSchemes, Names: []string{"data"}})
				}
			}
			switch o.K {
			case spec.KSchemes, spec.KSchemeCustom:
				for _, n := range o.Names {
					registered[strings.ToLower(n)] = true
				}
			case spec.KDataURIImages:
				registered["data"] = true
			case spec.KStdURLs, spec.KImages:
				registered["http"], registered["https"], registered["mailto"] = true, true, true
			}
			out = append(out, o)
		}
		sws = out
	}
	if v.order {
		r.Shuffle(len(rules), func(i, j int) { rules[i], rules[j] = rules[j], rules[i] })
		sws = permuteCommuting(r, sws)
	}
	// merge: switch-like ops keep their relative order, at random positions (or at the end)
	var out []spec.Op
	out = append(out, base)
	if v.order {
		ri, si := 0, 0
		for ri < len(rules) || si < len(sws) {
			if si < len(sws) && (ri >= len(rules) || r.Intn(len(rules)+len(sws)-ri-si) < len(sws)-si) {
				out = append(out, sws[si])
				si++
			} else {
				out = append(out, rules[ri])
				ri++
			}
		}
	} else {
		// keep the original interleaving as far as possible: rules then switches in original order
		idx := 0
		used := map[int]bool{}
		_ = idx
		_ = used
		// original relative order of everything that is original, extras appended in place
		out = append(out, mergeOriginal(ops[1:], rules, sws)...)
	}
	if v.fresh {
		for i := range out {
			out[i].Fresh = r.Intn(2) == 0
		}
	}
	if v.order {
		// the matcher calls inside one AllowStyles chain, in another order
		for i := range out {
			if len(out[i].Chain) > 1 {
				ch := append([]string{}, out[i].Chain...)
				r.Shuffle(len(ch), func(a, b int) { ch[a], ch[b] = ch[b], ch[a] })
				out[i].Chain = ch
			}
		}
	}
	return out
}

// swWrites: the settings a switch-like call writes, as documented (every link option and every scheme
// call also switches URL parsing on). Two calls commute when every setting both of them write
// gets the same value from both; validators of one scheme accumulate, so they commute too.
func swWrites(o spec.Op) map[string]string {
	w := map[string]string{}
	std := func() {
		w["parseable"], w[spec.SwRelative], w[spec.SwNoFollow] = "true", "true", "true"
		for _, n := range []string{"mailto", "http", "https"} {
			w["scheme:"+n] = "plain"
		}
	}
	switch o.K {
	case spec.KSwitch:
		n := o.Names[0]
		if n == spec.SwParseable {
			w["parseable"] = fmt.Sprint(o.B)
			break
		}
		w[n] = fmt.Sprint(o.B)
		switch n {
		case spec.SwNoFollow, spec.SwNoFollowFQ, spec.SwNoReferrer, spec.SwNoReferrerFQ, spec.SwTargetBlank, spec.SwRelative:
			w["parseable"] = "true"
		}
	case spec.KSchemes:
		w["parseable"] = "true"
		for _, n := range o.Names {
			w["scheme:"+strings.ToLower(n)] = "plain"
		}
	case spec.KSchemeCustom:
		w["parseable"] = "true"
		w["scheme:"+strings.ToLower(o.Names[0])] = "validators"
	case spec.KDataURIImages:
		w["parseable"] = "true"
		w["scheme:data"] = "validators"
	case spec.KStdURLs, spec.KImages:
		std()
	case spec.KSkip:
		for _, n := range o.Names {
			w["content:"+strings.ToLower(n)] = "skip"
		}
	case spec.KKeep:
		for _, n := range o.Names {
			w["content:"+strings.ToLower(n)] = "keep"
		}
	case spec.KSandbox, spec.KIFrames:
		is := append([]int{}, o.Ints...)
		sort.Ints(is)
		w["sandbox"] = fmt.Sprint(is)
	case spec.KRewrite:
		w["rewrite"] = o.Check
	case spec.KUnsafe:
		w["unsafe"] = fmt.Sprint(o.B)
	default:
		w["*"] = o.String()
	}
	return w
}

func commute(a, b map[string]string) bool {
	if _, ok := a["*"]; ok {
		return false
	}
	if _, ok := b["*"]; ok {
		return false
	}
	for k, va := range a {
		if vb, ok := b[k]; ok && vb != va {
			return false
		}
	}
	return true
}

// permuteCommuting returns a random reordering of the switch-like calls in which two calls
// that do not commute keep their relative order ("each option reflects its most recent setting",
// and a setting is only touched by the calls documented to touch it).
func permuteCommuting(r *rand.Rand, sws []spec.Op) []spec.Op {
	n := len(sws)
	ws := make([]map[string]string, n)
	for i, o := range sws {
		ws[i] = swWrites(o)
	}
	done := make([]bool, n)
	out := make([]spec.Op, 0, n)
	for len(out) < n {
		var ready []int
		for i := 0; i < n; i++ {
			if done[i] {
				continue
			}
			ok := true
			for j := 0; j < i; j++ {
				if !done[j] && !commute(ws[j], ws[i]) {
					ok = false
					break
				}
			}
			if ok {
				ready = append(ready, i)
			}
		}
		pick := ready[r.Intn(len(ready))]
		done[pick] = true
		out = append(out, sws[pick])
	}
	return out
}

// mergeOriginal keeps rules and switches in the given sequences, interleaved
// like the original history (rules first where the original had a rule).
func mergeOriginal(orig, rules, sws []spec.Op) []spec.Op {
	var out []spec.Op
	ri, si := 0, 0
	for _, o := range orig {
		if isRuleOp(o) {
			if ri < len(rules) {
				out = append(out, rules[ri])
				ri++
			}
		} else {
			// emit every switch-like op up to and including the next original one
			for si < len(sws) {
				cur := sws[si]
				out = append(out, cur)
				si++
				if cur.String() == o.String() {
					break
				}
			}
		}
	}
	out = append(out, rules[ri:]...)
	out = append(out, sws[si:]...)
	return out
}

// helperOverlap: a convenience helper together with hand-written rules on the same elements
// and attributes, so that "rules accumulate rather than replace one another" is exercised on
// the helpers' own tables in both call orders.
func helperOverlap(r *rand.Rand) []spec.Op {
	re := func() string { return gen.ValLib[r.Intn(6)].Re }
	at := func(els []string, attrs ...string) spec.Op {
		return spec.Op{K: spec.KAllowAttrs, Attrs: attrs, Re: re(), Scope: "els", Names: els}
	}
	switch r.Intn(8) {
	case 0:
		return []spec.Op{{K: spec.KLists}, at([]string{"li", "ol", "ul"}, "type", "value", "class")}
	case 1:
		return []spec.Op{{K: spec.KTables}, at([]string{"td", "th", "table", "col"}, "align", "width", "scope", "x"), {K: spec.KAllowNoAttrs, Scope: "els", Names: []string{"td"}}}
	case 2:
		return []spec.Op{{K: spec.KImages}, at([]string{"img"}, "alt", "width", "align", "title"), {K: spec.KSchemes, Names: []string{"ftp"}}}
	case 3:
		return []spec.Op{{K: spec.KStdAttrs}, {K: spec.KAllowAttrs, Attrs: []string{"id", "title", "lang", "dir"}, Re: re(), Scope: "global"}}
	case 4:
		return []spec.Op{{K: spec.KStyling}, {K: spec.KAllowAttrs, Attrs: []string{"class"}, Re: re(), Scope: "global"}, at([]string{"span", "p"}, "class")}
	case 5:
		return []spec.Op{{K: spec.KIFrames, Ints: []int{2, 6}}, at([]string{"iframe"}, "sandbox", "src"), {K: spec.KSandbox, Ints: []int{10}}}
	case 6:
		return []spec.Op{{K: spec.KStdURLs}, {K: spec.KSchemes, Names: []string{"ftp", "HTTP"}}, {K: spec.KSchemeCustom, Names: []string{"https"}, Check: "host-example"}, {K: spec.KAllowAttrs, Attrs: []string{"href"}, Scope: "els", Names: []string{"a"}}}
	default:
		return []spec.Op{{K: spec.KDataURIImages}, {K: spec.KSchemeCustom, Names: []string{"data"}, Check: "never"}, {K: spec.KAllowAttrs, Attrs: []string{"src"}, Scope: "els", Names: []string{"img"}},
			{K: spec.KSkip, Names: []string{"div", "title"}}, {K: spec.KKeep, Names: []string{"title", "iframe"}}}
	}
}

func randCase(r *rand.Rand) spec.Casing {
	mode := r.Intn(4)
	// mode 3: every argument is re-cased independently (upper case in ONE argument position only, etc.)
	ar := rand.New(rand.NewSource(r.Int63()))
	return func(s string) string {
		m := mode
		if mode == 3 {
			m = ar.Intn(4)
			if m == 3 {
				return s
			}
		}
		switch m {
		case 0:
			return strings.ToUpper(s)
		case 1:
			b := []byte(s)
			for i, c := range b {
				if c >= 'a' && c <= 'z' && (i+len(s))%2 == 0 {
					b[i] = c - 32
				}
			}
			return string(b)
		}
		b := []byte(s)
		if len(b) > 0 && b[0] >= 'a' && b[0] <= 'z' {
			b[0] -= 32
		}
		return string(b)
	}
}

func lowerOnlyASCII(ops []spec.Op) bool {
	// case variation is only meaningful for ASCII names (the builder lower-cases with
	// strings.ToLower; non-ASCII names are not generated)
	for _, o := range ops {
		for _, n := range append(append([]string{}, o.Names...), o.Attrs...) {
			for i := 0; i < len(n); i++ {
				if n[i] >= 0x80 {
					return false
				}
			}
		}
	}
	return true
}

func c17Probes(r *rand.Rand, env *Env, n int) []string {
	probes := make([]string, 0, n)
	for i := 0; i < n; i++ {
		if i%3 == 0 {
			// mostly-conforming: canonical serialisation of a tree over the policy's own vocabulary
			o := env.DocOpts(0, false)
			probes = append(probes, gen.Serialize(r, gen.RandomTree(r, o, 0), 0))
		} else {
			probes = append(probes, env.HostileInput(r))
		}
	}
	return probes
}

func c17Describe(ctx *core.Ctx) {
	ctx.Rule = "random rule sets; each is built through a canonical history and through rule-equivalent histories (permuted rule calls with switch-like calls interleaved in their relative order, upper/mixed-case names, duplicated rule calls, switches toggled before their final value, fresh regexp objects for the same pattern) and both policies sanitise conforming + hostile probe inputs; a difference is localised by replaying each variation kind alone; independence: a policy's outputs and reflection fingerprint before/after another instance (incl. UGCPolicy/StrictPolicy/NewPolicy siblings) is built, extended and used, and fresh instances created late must equal fresh instances created early; non-trivial = a probe on which the compared policies emit markup, distinct by (rule set, history, probe)"
	ctx.Assume("switch-like calls (booleans, scheme registrations, skip/keep content, sandbox set, rewriter, helpers that contain switches) keep their relative order whenever they write a common setting with different values (documented side effects included: every link option and scheme call switches URL parsing on); calls that touch different settings are permuted like rule calls", "caller-owned slices passed to MatchingEnum are not mutated (outside the property)")
}

func c17Floors(ctx *core.Ctx) {
	ctx.MinNontrivial(int64(ctx.N(20000, 300000)))
	ctx.Floor("histories_compared", 1000)
	ctx.Floor("independence_pairs", 200)
	ctx.Floor("interleaved_constructions", 200)
}

// c17Work: part = "sequential" (independence stream only, one goroutine), "parallel"
// (histories + independence on all cores) or "all" (replay).
func c17Work(ctx *core.Ctx, part string) {
	nSpec := ctx.N(1800, 30000)
	if part == "sequential" {
		nSpec = 0
	}
	nHist := ctx.N(4, 6)
	nProbe := ctx.N(120, 300)
	ctx.Run("histories", nSpec, func(cs *core.Case) {
		r := cs.R
		ops := spec.RandomOps(r, spec.GenOpts{Styles: true})
		if r.Intn(3) == 0 {
			ops = append(ops, helperOverlap(r)...)
		}
		// some style rules carry two or three matcher calls in one chain; the order inside the chain must
		// not matter either (targeted probes: values only one of the matchers accepts)
		var chainProbes []string
		for i := range ops {
			o := &ops[i]
			if o.K != spec.KAllowStyles || len(o.Attrs) == 0 || r.Intn(3) > 0 || (o.Matcher != "enum" && o.Matcher != "re") {
				continue
			}
			if o.Re == "" {
				o.Re = gen.ValLib[r.Intn(6)].Re
			}
			if len(o.Enum) == 0 {
				o.Enum = []string{"red", "Left", "10px"}
			}
			o.Chain = []string{"enum", "re"}
			good, _ := gen.Pools(o.Re)
			el := "span"
			if o.Scope == "els" && len(o.Names) > 0 {
				el = o.Names[0]
			} else if o.Scope == "match" {
				el = "my-x"
			}
			for _, v := range append(append([]string{}, good...), o.Enum...) {
				chainProbes = append(chainProbes, fmt.Sprintf(`<%s style="%s">t</%s><span style="%s">u</span><my-x style="%s">v</my-x>`, el, gen.CanonEscape(o.Attrs[0]+": "+v), el, gen.CanonEscape(o.Attrs[0]+": "+v), gen.CanonEscape(o.Attrs[0]+": "+v)))
			}
		}
		if cs.Index%12 == 5 {
			// the zero value of Policy as the starting point, with scheme rules of every kind
			ops[0] = spec.Op{K: spec.KZero}
			ops = append(ops, spec.Op{K: spec.KSchemesMatching, Re: gen.Pick(r, []string{`^x-`, `^(ftp|sftp)$`, `^t`})}, spec.Op{K: spec.KAllowAttrs, Attrs: []string{"href", "src"}, Scope: "global"}, spec.Op{K: spec.KAllowElements, Names: []string{"a", "img"}})
		}
		envA := NewEnv(ops)
		probes := append(c17Probes(r, envA, nProbe), chainProbes...)
		for _, u := range []string{"ftp://example.org/x", "sftp://example.org/", "x-app:open", "tel:+15551234", "web+https://example.org/", "git+ssh://example.org/r", "http://example.org/", "https://example.org/?a=1", "mailto:a@example.org", "/rel", "//cdn.example.net/x", "data:image/png;base64,iVBORw0KGgo="} {
			probes = append(probes, `<a href="`+u+`">l</a><img src="`+u+`">`)
		}
		want := make([]string, len(probes))
		for i, p := range probes {
			want[i] = envA.Pol.Sanitize(p)
		}
		cs.EvalN(len(probes))
		lc := core.LocalCounts{}
		for h := 0; h < nHist; h++ {
			v := variation{order: r.Intn(4) > 0, casing: r.Intn(2) == 0 && lowerOnlyASCII(ops), dup: r.Intn(2) == 0, toggle: r.Intn(2) == 0, fresh: r.Intn(2) == 0}
			hr := rand.New(rand.NewSource(r.Int63()))
			build := func(v variation, seed int64) (*bluemonday.Policy, []spec.Op) {
				rr := rand.New(rand.NewSource(seed))
				vops := vary(rr, ops, v)
				var c spec.Casing
				if v.casing {
					c = randCase(rr)
				}
				return spec.BuildCased(vops, c), vops
			}
			seed := hr.Int63()
			pB, vops := build(v, seed)
			if h == 0 {
				// the same history with the policy put to use half-way: whatever it learned about the probes
				// then (names it did not know, verdicts) must not outlive the calls that follow
				var pU *bluemonday.Policy
				for k, o := range vops {
					pU = spec.Apply(pU, o, nil)
					if k == len(vops)/2 && !v.casing {
						for _, p := range probes {
							pU.Sanitize(p)
						}
					}
				}
				if !v.casing {
					pB = pU
					lc["histories_with_use_before_extension"]++
				}
			}
			lc["histories_compared"]++
			lc["variation:"+v.String()]++
			for i, p := range probes {
				got := pB.Sanitize(p)
				cs.Eval()
				if got != want[i] {
					// localise: which single variation kind reproduces the difference?
					culprit := v.String()
					for _, single := range []variation{{order: true}, {casing: true}, {dup: true}, {toggle: true}, {fresh: true}} {
						if (single.order && !v.order) || (single.casing && !v.casing) || (single.dup && !v.dup) || (single.toggle && !v.toggle) || (single.fresh && !v.fresh) {
							continue
						}
						reproduced := false
						for try := int64(0); try < 6 && !reproduced; try++ {
							pS, _ := build(single, seed+try)
							if pS.Sanitize(p) != want[i] {
								reproduced = true
							}
						}
						if reproduced {
							culprit = single.String()
							break
						}
					}
					cs.Violate(fmt.Sprintf("C17:history:%s:%s", culprit, firstDiffToken(got, want[i])),
						fmt.Sprintf("two policies built from the same rule set differ (variation %s, localised to %s): canonical=%q varied=%q input=%q", v, culprit, core.Clip(want[i], 200), core.Clip(got, 200), core.Clip(p, 200)),
						map[string]interface{}{"canonical_history": spec.Describe(ops), "varied_history": spec.Describe(vops), "ops": ops, "input": core.Show(p), "canonical_output": core.Show(want[i]), "varied_output": core.Show(got), "variation": v.String()})
					break
				}
				if strings.Contains(got, "<") {
					cs.Nontrivial(core.Hash(strings.Join(spec.Describe(vops), ";"), p))
				}
			}
			if cs.Ctx.WantSample("history") {
				cs.Sample("history", map[string]interface{}{"canonical_history": spec.Describe(ops), "varied_history": spec.Describe(vops), "variation": v.String(), "probe": core.Show(core.Clip(probes[0], 200)), "output": core.Show(core.Clip(want[0], 200))})
			}
		}
		cs.Flush(lc)
	})

	// use, reconfigure, use again ---------------------------------------------------
	// One construct, one policy: the policy sanitises the probe, one switch-like call changes a
	// setting, the policy sanitises the very same probe again and must answer like a policy that
	// was built with the final settings and never used. A verdict remembered from the first call
	// (a last-value memo, a per-value cache) that the reconfiguring call does not invalidate is
	// only visible when the same value is the next one asked about - which the random histories,
	// using a hundred probes in a row, practically never arrange.
	if part != "sequential" {
		base := []spec.Op{{K: spec.KNew}, {K: spec.KAllowElements, Names: []string{"a", "area", "img", "iframe", "p", "b", "span", "blockquote", "audio"}},
			{K: spec.KAllowAttrs, Attrs: []string{"href", "src", "cite", "sandbox", "title", "rel", "target", "crossorigin"}, Scope: "global"},
			{K: spec.KSchemes, Names: []string{"http", "https"}}}
		sw := func(n string, b bool) spec.Op { return spec.Op{K: spec.KSwitch, Names: []string{n}, B: b} }
		var steps [][2]spec.Op
		for _, n := range []string{spec.SwRelative, spec.SwParseable, spec.SwNoFollow, spec.SwNoFollowFQ, spec.SwNoReferrer, spec.SwNoReferrerFQ, spec.SwTargetBlank, spec.SwCrossOrigin, spec.SwAddSpaces} {
			steps = append(steps, [2]spec.Op{sw(n, true), sw(n, false)}, [2]spec.Op{sw(n, false), sw(n, true)})
		}
		steps = append(steps,
			[2]spec.Op{{K: spec.KSandbox, Ints: []int{2, 10}}, {K: spec.KSandbox, Ints: []int{2}}},
			[2]spec.Op{{K: spec.KSandbox, Ints: []int{2}}, {K: spec.KSandbox, Ints: []int{2, 10}}},
			[2]spec.Op{{K: spec.KSkip, Names: []string{"b"}}, {K: spec.KKeep, Names: []string{"b"}}},
			[2]spec.Op{{K: spec.KKeep, Names: []string{"b"}}, {K: spec.KSkip, Names: []string{"b"}}},
			[2]spec.Op{{K: spec.KSchemeCustom, Names: []string{"http"}, Check: "always"}, {K: spec.KSchemeCustom, Names: []string{"http"}, Check: "never"}},
			[2]spec.Op{{K: spec.KSchemeCustom, Names: []string{"http"}, Check: "never"}, {K: spec.KSchemeCustom, Names: []string{"http"}, Check: "always"}},
			[2]spec.Op{{K: spec.KSchemeCustom, Names: []string{"http"}, Check: "never"}, {K: spec.KSchemes, Names: []string{"http"}}},
			[2]spec.Op{sw(spec.SwRelative, false), {K: spec.KSchemes, Names: []string{"ftp"}}},
			[2]spec.Op{sw(spec.SwRelative, true), {K: spec.KDataAttrs}},
			[2]spec.Op{sw(spec.SwRelative, true), {K: spec.KComments}},
			[2]spec.Op{sw(spec.SwRelative, true), {K: spec.KAllowAttrs, Attrs: []string{"alt", "id"}, Scope: "global"}},
			[2]spec.Op{sw(spec.SwRelative, true), {K: spec.KAllowElements, Names: []string{"u", "q"}}})
		reProbes := []string{`<a href="/rel">x</a>`, `<a href="http://example.org/">x</a>`, `<a href="https://example.org/a?b=c" rel="x" target="_self">x</a>`,
			`<img src="/local/pic.png">`, `<img src="https://example.org/i.png" alt="i" id="k">`, `<blockquote cite="/c">q</blockquote>`, `<audio src="rel.ogg"></audio>`,
			`<iframe sandbox="allow-forms allow-scripts" src="https://example.org/"></iframe>`, `<iframe sandbox="allow-scripts"></iframe>`,
			`<p>a<b>c</b>d<u>e</u><q cite="/q">f</q></p>`, `<a href="ftp://example.org/f">x</a>`, `<span data-x="1" title="t">s</span><!-- c -->`, `<area href="//example.org/x">`}
		ctx.Run("use-reconfigure-reuse", len(steps), func(cs *core.Case) {
			st := steps[cs.Index]
			lc := core.LocalCounts{}
			final := append(append(append([]spec.Op{}, base...), st[0]), st[1])
			fresh := spec.Build(final)
			for _, uses := range []int{1, 2} {
				for _, p := range reProbes {
					pol := spec.Build(append(append([]spec.Op{}, base...), st[0]))
					for u := 0; u < uses; u++ {
						pol.Sanitize(p)
					}
					pol = spec.Apply(pol, st[1], nil)
					got, want := pol.Sanitize(p), fresh.Sanitize(p)
					cs.Eval()
					lc["use_reconfigure_reuse_comparisons"]++
					if got != want {
						cs.Violate("C17:history:use-then-reconfigure:"+firstDiffToken(got, want), fmt.Sprintf("a policy that sanitised an input, was reconfigured with %s and sanitised the same input again differs from a policy built with the final settings and never used: used=%q fresh=%q input=%q", spec.Describe([]spec.Op{st[1]})[0], core.Clip(got, 200), core.Clip(want, 200), p),
							map[string]interface{}{"history": spec.Describe(final), "ops": final, "input": core.Show(p), "used_policy_output": core.Show(got), "fresh_policy_output": core.Show(want)})
					}
					if got != fresh.Sanitize(`<p>x</p>`) && strings.Contains(got, "<") {
						cs.Nontrivial(core.Hash("reconf", fmt.Sprint(cs.Index), p))
					}
				}
			}
			cs.Flush(lc)
		})
	}

	// independence ---------------------------------------------------------------
	refUGC := map[string]string{}
	refStrict := map[string]string{}
	refNew := map[string]string{}
	fixedProbes := []string{}
	{
		r := ctx.StreamRand("independence-probes")
		env := NewEnv(spec.UGCOps())
		for i := 0; i < 200; i++ {
			fixedProbes = append(fixedProbes, env.HostileInput(r))
		}
		u, s, n := bluemonday.UGCPolicy(), bluemonday.StrictPolicy(), bluemonday.NewPolicy()
		for _, p := range fixedProbes {
			refUGC[p], refStrict[p], refNew[p] = u.Sanitize(p), s.Sanitize(p), n.Sanitize(p)
		}
	}
	nInd := ctx.N(300, 3000)
	if part == "sequential" {
		nInd = ctx.N(60, 300)
	}
	ctx.Run("independence", nInd, func(cs *core.Case) {
		r := cs.R
		lc := core.LocalCounts{}
		opsA := spec.RandomOps(r, spec.GenOpts{Styles: true})
		opsB := spec.RandomOps(r, spec.GenOpts{Styles: true, ScriptStyle: false})
		switch cs.Index % 4 { // siblings from the same shipped constructor
		case 0:
			opsA = append([]spec.Op{{K: spec.KUGC}}, opsA[1:]...)
			opsB = append([]spec.Op{{K: spec.KUGC}}, opsB[1:]...)
		case 1:
			opsA = append([]spec.Op{{K: spec.KStrict}}, opsA[1:]...)
			opsB = append([]spec.Op{{K: spec.KStrict}}, opsB[1:]...)
		case 2:
			if cs.Index%8 == 2 { // A is the shipped policy as it comes
				opsA = []spec.Op{{K: gen.Pick(r, []string{spec.KStrict, spec.KUGC})}}
				opsB = append([]spec.Op{{K: opsA[0].K}}, opsB[1:]...)
			}
		}
		// A built completely first
		envA := NewEnv(opsA)
		probes := c17Probes(r, envA, 60)
		before := make([]string, len(probes))
		for i, p := range probes {
			before[i] = envA.Pol.Sanitize(p)
		}
		fpA := Fingerprint(envA.Pol)
		// B built, extended aggressively and used
		pB := spec.Build(opsB)
		for k := 0; k < 3; k++ {
			for _, o := range spec.RandomOps(r, spec.GenOpts{Styles: true})[1:] {
				pB = spec.Apply(pB, o, nil)
			}
			pB.AllowElements("script", "object", "iframe", "form").AllowAttrs("onclick", "style", "href", "src").Globally()
			pB.AllowURLSchemes("javascript", "data", "vbscript")
			pB.AllowElementsContent("iframe", "object", "title", "noscript")
			pB.SkipElementsContent("p", "div", "b", "a")
			pB.AllowNoAttrs().OnElements("a", "img", "span", "font")
			pB.AllowStyles("color", "behavior").Globally()
			pB.AddSpaceWhenStrippingTag(true).AllowRelativeURLs(true).RequireNoFollowOnLinks(false)
			pB.AllowDataAttributes()
			pB.AllowComments()
			for _, p := range probes {
				pB.Sanitize(p)
			}
		}
		cs.EvalN(len(probes) * 4)
		for i, p := range probes {
			if got := envA.Pol.Sanitize(p); got != before[i] {
				cs.Violate("C17:independence:other-instance-changed-outputs:"+firstDiffToken(got, before[i]), fmt.Sprintf("policy A's output changed after policy B was built, extended and used: before=%q after=%q input=%q", core.Clip(before[i], 200), core.Clip(got, 200), core.Clip(p, 200)),
					map[string]interface{}{"policy_A": spec.Describe(opsA), "policy_B": spec.Describe(opsB), "ops": opsA, "input": core.Show(p)})
				break
			}
			if before[i] != "" {
				cs.Nontrivial(core.Hash("indep", strings.Join(spec.Describe(opsA), ";"), p))
			}
		}
		if fp := Fingerprint(envA.Pol); fp != fpA {
			cs.Violate("C17:independence:fingerprint-changed", "policy A's reflection fingerprint changed while policy B was built and used", map[string]interface{}{"policy_A": spec.Describe(opsA), "policy_B": spec.Describe(opsB), "ops": opsA})
		}
		lc["independence_pairs"]++
		// interleaved construction: A2 and B2 built call by call, alternating, must equal A built alone
		var pA2, pB2 *bluemonday.Policy
		ia, ib := 0, 0
		for ia < len(opsA) || ib < len(opsB) {
			if ia < len(opsA) && (ib >= len(opsB) || r.Intn(2) == 0) {
				pA2 = spec.Apply(pA2, opsA[ia], nil)
				ia++
			} else {
				pB2 = spec.Apply(pB2, opsB[ib], nil)
				ib++
			}
		}
		for i, p := range probes {
			if got := pA2.Sanitize(p); got != before[i] {
				cs.Violate("C17:independence:interleaved-construction:"+firstDiffToken(got, before[i]), fmt.Sprintf("policy A built interleaved with policy B differs from A built alone: alone=%q interleaved=%q input=%q", core.Clip(before[i], 200), core.Clip(got, 200), core.Clip(p, 200)),
					map[string]interface{}{"policy_A": spec.Describe(opsA), "policy_B": spec.Describe(opsB), "ops": opsA, "input": core.Show(p)})
				break
			}
		}
		lc["interleaved_constructions"]++
		// fresh instances created now must behave like the ones created at start-up
		u, s, n := bluemonday.UGCPolicy(), bluemonday.StrictPolicy(), bluemonday.NewPolicy()
		for k := 0; k < 20; k++ {
			p := fixedProbes[r.Intn(len(fixedProbes))]
			if got := u.Sanitize(p); got != refUGC[p] {
				cs.Violate("C17:independence:late-UGCPolicy-differs", fmt.Sprintf("a UGCPolicy() created after other policies were extended differs from one created at start-up: early=%q late=%q input=%q", core.Clip(refUGC[p], 200), core.Clip(got, 200), core.Clip(p, 200)), map[string]interface{}{"input": core.Show(p)})
				break
			}
			if got := s.Sanitize(p); got != refStrict[p] {
				cs.Violate("C17:independence:late-StrictPolicy-differs", fmt.Sprintf("a StrictPolicy() created late differs: early=%q late=%q input=%q", core.Clip(refStrict[p], 200), core.Clip(got, 200), core.Clip(p, 200)), map[string]interface{}{"input": core.Show(p)})
				break
			}
			if got := n.Sanitize(p); got != refNew[p] {
				cs.Violate("C17:independence:late-NewPolicy-differs", fmt.Sprintf("a NewPolicy() created late differs: early=%q late=%q input=%q", core.Clip(refNew[p], 200), core.Clip(got, 200), core.Clip(p, 200)), map[string]interface{}{"input": core.Show(p)})
				break
			}
		}
		cs.Flush(lc)
	})
}
