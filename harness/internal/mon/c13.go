package mon

import (
	"bytes"
	"fmt"
	"math/rand"
	"os"
	"path/filepath"
	"regexp"
	"runtime/debug"
	"strconv"
	"strings"
	"sync"
	"sync/atomic"

	"verif/harness/internal/core"
	"verif/harness/internal/gen"
	"verif/harness/internal/spec"
)

// C13 — a finished policy is deterministic and safe to share between goroutines.

func init() { Registry["C13"] = runC13 }

func raceEnabled() bool {
	bi, ok := debug.ReadBuildInfo()
	if !ok {
		return false
	}
	for _, s := range bi.Settings {
		if s.Key == "-race" && s.Value == "true" {
			return true
		}
	}
	return false
}

func c13Policies(ctx *core.Ctx) [][]spec.Op {
	pols := [][]spec.Op{{{K: spec.KStrict}}, {{K: spec.KUGC}}, spec.CmdHTMLEmailOps()}
	// generated policies with >= 3 overlapping element patterns, style rules in all scopes, URL callbacks, rewriter
	heavy := func(r *rand.Rand) []spec.Op {
		ops := spec.RandomOps(r, spec.GenOpts{Styles: true, MaxRules: 14})
		ops = append(ops,
			spec.Op{K: spec.KAllowAttrs, Attrs: []string{"id", "title"}, Re: `^[a-z]+$`, Scope: "match", ElRe: `^my-`},
			spec.Op{K: spec.KAllowAttrs, Attrs: []string{"id", "class"}, Re: `^[0-9]+$`, Scope: "match", ElRe: `^my-x$`, Fresh: true},
			spec.Op{K: spec.KAllowAttrs, Attrs: []string{"id"}, Re: `^x-[a-z0-9]*$`, Scope: "match", ElRe: `-`},
			spec.Op{K: spec.KAllowNoAttrs, Scope: "match", ElRe: `^[a-z]{1,3}$`},
			// several rules for the same attribute on the same pattern object (slices with spare capacity):
			// merging them per call must never write into the policy's own slices
			spec.Op{K: spec.KAllowAttrs, Attrs: []string{"id"}, Re: `^[0-9]+$`, Scope: "match", ElRe: `^my-`},
			spec.Op{K: spec.KAllowAttrs, Attrs: []string{"id"}, Re: `^#[a-f]{3}$`, Scope: "match", ElRe: `^my-`},
			spec.Op{K: spec.KAllowAttrs, Attrs: []string{"id", "title"}, Re: `^_[A-Z]+$`, Scope: "match", ElRe: `-`},
			spec.Op{K: spec.KAllowAttrs, Attrs: []string{"id"}, Re: `^[0-9]+$`, Scope: "match", ElRe: `-`},
			spec.Op{K: spec.KAllowAttrs, Attrs: []string{"id"}, Re: `(?i)^(left|right)$`, Scope: "match", ElRe: `-`},
			spec.Op{K: spec.KAllowAttrs, Attrs: []string{"id"}, Re: `^#[a-f]{3}$`, Scope: "match", ElRe: `-`},
			spec.Op{K: spec.KAllowAttrs, Attrs: []string{"id"}, Re: `^[a-z]+$`, Scope: "match", ElRe: `^my-x$`},
			spec.Op{K: spec.KAllowAttrs, Attrs: []string{"id"}, Re: `^x-[a-z0-9]*$`, Scope: "match", ElRe: `^my-x$`},
			spec.Op{K: spec.KAllowStyles, Attrs: []string{"color", "width"}, Matcher: "default", Scope: "global"},
			spec.Op{K: spec.KAllowStyles, Attrs: []string{"color", "margin"}, Matcher: "re", Re: `^[a-z]+$`, Scope: "match", ElRe: `^my-`},
			spec.Op{K: spec.KAllowStyles, Attrs: []string{"color"}, Matcher: "enum", Enum: []string{"red", "Blue", "LEFT"}, Scope: "match", ElRe: `-`},
			spec.Op{K: spec.KAllowStyles, Attrs: []string{"float", "clear"}, Matcher: "enum", Enum: []string{"Left", "RIGHT", "none"}, Scope: "global"},
			spec.Op{K: spec.KAllowStyles, Attrs: []string{"float"}, Matcher: "handler", Handler: "short", Scope: "els", Names: []string{"div", "span"}},
			// five more rules for one property spread over three patterns that all match my-x
			spec.Op{K: spec.KAllowStyles, Attrs: []string{"color"}, Matcher: "re", Re: `^#[a-f]{3}$`, Scope: "match", ElRe: `^my-x$`},
			spec.Op{K: spec.KAllowStyles, Attrs: []string{"color"}, Matcher: "re", Re: `^[0-9]+$`, Scope: "match", ElRe: `^my-x$`},
			spec.Op{K: spec.KAllowStyles, Attrs: []string{"color"}, Matcher: "handler", Handler: "has-safe", Scope: "match", ElRe: `^my-`},
			spec.Op{K: spec.KAllowStyles, Attrs: []string{"color"}, Matcher: "re", Re: `^_[A-Z]+$`, Scope: "match", ElRe: `-`, Fresh: true},
			spec.Op{K: spec.KAllowStyles, Attrs: []string{"color"}, Matcher: "re", Re: `^x-[a-z0-9]*$`, Scope: "match", ElRe: `^my-`},
			spec.Op{K: spec.KAllowAttrs, Attrs: []string{"style"}, Scope: "match", ElRe: `^my-`},
			// the same attribute bound by name with a pattern first and without one later
			spec.Op{K: spec.KAllowAttrs, Attrs: []string{"title", "lang"}, Re: `^[a-z]+$`, Scope: "els", Names: []string{"p", "div", "span", "a"}},
			spec.Op{K: spec.KAllowAttrs, Attrs: []string{"title", "lang"}, Scope: "els", Names: []string{"p", "div", "span", "a"}},
			spec.Op{K: spec.KAllowAttrs, Attrs: []string{"title"}, Re: `^[0-9]+$`, Scope: "els", Names: []string{"p", "div"}},
			spec.Op{K: spec.KAllowAttrs, Attrs: []string{"href", "src", "cite"}, Scope: "global"},
			spec.Op{K: spec.KSchemeCustom, Names: []string{"http"}, Check: "host-example"},
			spec.Op{K: spec.KSchemeCustom, Names: []string{"http"}, Check: "host-cdn"},
			spec.Op{K: spec.KSchemes, Names: []string{"https", "mailto"}},
			spec.Op{K: spec.KSchemesMatching, Re: `^(x-[a-z0-9]+|web\+[a-z]+|s?ftp)$`},
			spec.Op{K: spec.KSchemesMatching, Re: `^git\+`, Fresh: true},
			spec.Op{K: spec.KRewrite, Check: "proxy"},
			spec.Op{K: spec.KSwitch, Names: []string{spec.SwNoFollow}, B: true},
			spec.Op{K: spec.KSwitch, Names: []string{spec.SwTargetBlank}, B: true},
			spec.Op{K: spec.KSwitch, Names: []string{spec.SwRelative}, B: true},
			spec.Op{K: spec.KIFrames, Ints: []int{2, 10}},
			spec.Op{K: spec.KSwitch, Names: []string{spec.SwCrossOrigin}, B: true},
			spec.Op{K: spec.KDataAttrs})
		return ops
	}
	for i := 0; i < 3; i++ {
		h := heavy(ctx.StreamRand(fmt.Sprintf("heavy-policy-%d", i)))
		if i == 2 {
			// link options stay on, URL checking is switched off again afterwards
			h = append(h, spec.Op{K: spec.KSwitch, Names: []string{spec.SwParseable}, B: false})
		}
		pols = append(pols, h)
	}
	// every default CSS handler, data URIs, patterns, rewriter: reaches package-level state in css/handlers.go and helpers.go
	pols = append(pols, everythingPolicy())
	// the zero value of Policy with options only: no builder call has initialised it when the first
	// (concurrent) calls arrive
	pols = append(pols, []spec.Op{{K: spec.KZero}, {K: spec.KComments}, {K: spec.KSwitch, Names: []string{spec.SwAddSpaces}, B: true}, {K: spec.KSwitch, Names: []string{spec.SwCrossOrigin}, B: true}, {K: spec.KDataAttrs}})
	return pols
}

var raceBlockRe = regexp.MustCompile(`(?s)WARNING: DATA RACE.*?==================`)

func runC13(ctx *core.Ctx) {
	ctx.Rule = "8 shared policies (Strict, UGC, html-email, a zero-value Policy with options only, 3 generated with overlapping element patterns, style rules in all scopes, URL callbacks, rewriter, and one with every default CSS handler) x a small input set (every fifth input URL-heavy, with schemes only a scheme pattern accepts) x 64 goroutines x rounds on a never-used instance, cold starts on fresh instances, and fresh PROCESSES whose very first sanitiser calls are made by 64 goroutines at once (package-level lazy state); all entry points, binary built with -race (GORACE halt_on_error=0, reports read back from log_path); oracle: zero race reports touching bluemonday or its dependencies, every concurrent result equals the sequential baseline, repeated sequential calls agree (map-order independence), the baseline recomputed after the stress is unchanged (the reflection fingerprint of the policy before/after is recorded as an observation); non-trivial = a (policy, input) pair executed concurrently with a non-empty result, distinct by pair"
	ctx.Assume("the race detector generalises each executed interleaving by happens-before analysis but only over executed code; its shadow history is bounded, repeats compensate")
	if !raceEnabled() && !ctx.Replaying {
		ctx.Inconclusive("the monitor binary was not built with -race")
	}
	pols := c13Policies(ctx)
	const G = 64
	var highWater int64
	idxs := []int{}
	for i := range pols {
		if !ctx.Replaying || (ctx.ReplayStream == "stress" && ctx.ReplayIndex == i) {
			idxs = append(idxs, i)
		}
	}
	// every policy is stressed in its own child process: a runtime "concurrent map" throw
	// is process-fatal and must be an observation, not the end of the monitor
	for _, i := range idxs {
		res := core.RunChild("c13", []string{fmt.Sprint(ctx.Seed), ctx.Tier, fmt.Sprint(i)}, 0, ctx.N(600, 3000))
		cs := &core.Case{Ctx: ctx, Stream: "stress", Index: i}
		merged := false
		if len(res.Stdout) > 0 {
			if j := bytes.LastIndex(res.Stdout, []byte("\nVMON-CHILD-STATE ")); j >= 0 {
				if err := ctx.MergeState(bytes.TrimSpace(res.Stdout[j+len("\nVMON-CHILD-STATE "):])); err == nil {
					merged = true
				}
			}
		}
		switch {
		case res.TimedOut:
			ctx.Inconclusive(fmt.Sprintf("stress child for policy %d hit the wall-clock watchdog", i))
		case strings.Contains(res.Stderr, "fatal error: concurrent map"):
			cs.Violate("C13:fatal:concurrent-map-access", "the Go runtime aborted the stress run: concurrent map access in the sanitiser\n"+core.Clip(res.Stderr, 3000),
				map[string]interface{}{"policy": spec.Describe(pols[i]), "ops": pols[i], "stderr": core.Clip(res.Stderr, 8000)})
		case !merged:
			ctx.Inconclusive(fmt.Sprintf("stress child for policy %d died (exit %d, signal %q) without a result:\n%s", i, res.Exit, res.Signal, core.Clip(res.Stderr, 2000)))
		}
	}
	// cold processes: several per policy, each a fresh process whose first sanitiser calls are concurrent
	for _, i := range idxs {
		if ctx.Replaying {
			break
		}
		for k := 0; k < ctx.N(3, 12); k++ {
			res := core.RunChild("c13cold", []string{fmt.Sprint(ctx.Seed), ctx.Tier, fmt.Sprint(i), fmt.Sprint(k)}, 0, 600)
			cs := &core.Case{Ctx: ctx, Stream: "cold-process", Index: i*1000 + k}
			merged := false
			if j := bytes.LastIndex(res.Stdout, []byte("\nVMON-CHILD-STATE ")); j >= 0 {
				if err := ctx.MergeState(bytes.TrimSpace(res.Stdout[j+len("\nVMON-CHILD-STATE "):])); err == nil {
					merged = true
				}
			}
			switch {
			case res.TimedOut:
				ctx.Inconclusive(fmt.Sprintf("cold-process child for policy %d hit the wall-clock watchdog", i))
			case strings.Contains(res.Stderr, "fatal error: concurrent map"):
				cs.Violate("C13:fatal:concurrent-map-access", "the Go runtime aborted the cold-process run: concurrent map access in the sanitiser\n"+core.Clip(res.Stderr, 3000),
					map[string]interface{}{"policy": spec.Describe(pols[i]), "ops": pols[i], "stderr": core.Clip(res.Stderr, 8000)})
			case !merged:
				ctx.Inconclusive(fmt.Sprintf("cold-process child for policy %d died (exit %d, signal %q) without a result:\n%s", i, res.Exit, res.Signal, core.Clip(res.Stderr, 2000)))
			}
		}
	}
	if v, ok := ctx.ExtraGet("in_flight_high_water_mark").(float64); ok {
		highWater = int64(v)
	}
	ctx.Extra("goroutines", G)
	if highWater < 8 && !ctx.Replaying {
		ctx.Inconclusive(fmt.Sprintf("calls never overlapped enough: in-flight high-water mark %d < 8", highWater))
	}
	// race reports
	dir := os.Getenv("VERIF_BIN_DIR")
	nrep, ours := 0, 0
	if dir != "" {
		files, _ := filepath.Glob(filepath.Join(dir, "race*"))
		seen := map[string]bool{}
		for _, f := range files {
			data, err := os.ReadFile(f)
			if err != nil {
				continue
			}
			for _, blk := range raceBlockRe.FindAllString(string(data), -1) {
				nrep++
				sig := raceSignature(blk)
				if seen[sig] {
					continue
				}
				seen[sig] = true
				if strings.Contains(blk, "microcosm-cc/bluemonday") || strings.Contains(blk, "/repo/") || strings.Contains(blk, "aymerick/douceur") || strings.Contains(blk, "gorilla/css") || strings.Contains(blk, "golang.org/x/net/html") {
					ours++
					cs := &core.Case{Ctx: ctx, Stream: "stress", Index: 0}
					cs.Violate("C13:race:"+sig, "the race detector reported a data race in the sanitiser:\n"+core.Clip(blk, 3000), map[string]interface{}{"report": core.Clip(blk, 6000)})
				} else {
					ctx.Inconclusive("race report that does not touch the sanitiser (harness bug?):\n" + core.Clip(blk, 1500))
				}
			}
		}
	} else if !ctx.Replaying {
		ctx.Inconclusive("VERIF_BIN_DIR not set: race reports cannot be read back")
	}
	ctx.Extra("race_report_blocks", nrep)
	ctx.Extra("race_reports_in_sanitiser", ours)
	ctx.Extra("race_detector_enabled", raceEnabled())
	ctx.MinNontrivial(int64(ctx.N(300, 1000)))
	ctx.Floor("concurrent_calls", 100000)
	ctx.Floor("sequential_repeat_calls", 10000)
	ctx.Floor("cold_start_concurrent_calls", 5000)
	ctx.Floor("cold_processes", 20)
}

// c13Inputs: the input set for one policy.
func c13Inputs(r *rand.Rand, env *Env, idx, nIn int) []string {
	inputs := make([]string, nIn)
	pool := gen.CSSTokenPool()
	for i := range inputs {
		inputs[i] = env.HostileInput(r)
		if idx >= 3 && idx <= 5 && i%3 == 0 { // elements matched by several patterns at once, values accepted by one rule only
			el := gen.Pick(r, []string{"my-x", "my-y", "x-foo", "my-"})
			inputs[i] = fmt.Sprintf(`<%s id="%s" title="%s" class="%s">t</%s>`, el, gen.Pick(r, []string{"abc", "42", "#abc", "_AB", "left", "x-a1", "zz9", "NO"}), gen.Pick(r, []string{"abc", "_XY", "1"}), gen.Pick(r, []string{"7", "x"}), el)
		}
		if idx == 6 && i%2 == 0 { // the all-handlers policy: style-heavy inputs over all documented properties
			var b strings.Builder
			for k := 0; k < 1+r.Intn(5); k++ {
				prop := gen.CSSProperties[r.Intn(len(gen.CSSProperties))]
				if r.Intn(4) == 0 { // one or two vendor prefixes in front of the name
					prop = gen.Pick(r, []string{"-webkit-", "-moz-", "-ms-", "-o-", "mso-", "-khtml-"}) + prop
					if r.Intn(2) == 0 {
						prop = gen.Pick(r, []string{"-webkit-", "-moz-", "-ms-", "-o-", "mso-", "-khtml-"}) + prop
					}
				}
				fmt.Fprintf(&b, "%s: %s %s; ", prop, pool[r.Intn(len(pool))], pool[r.Intn(len(pool))])
				if r.Intn(3) == 0 {
					fmt.Fprintf(&b, "%s: %s; ", prop, gen.Pick(r, []string{"red", "1px", "none", "inherit", "left", "10%"}))
				}
			}
			inputs[i] = `<span style="` + gen.CanonEscape(b.String()) + `">x</span><a href="http://example.org/?a=1" rel="x">y</a>`
		}
		if i%5 == 1 {
			// URL-heavy: every URL position, schemes that are listed, schemes only a scheme pattern accepts
			// (a new one in almost every input), data URIs with white space inside, relative references
			u := func() string {
				switch r.Intn(6) {
				case 0:
					return fmt.Sprintf("x-%c%c%d:payload/%d", 'a'+rune(r.Intn(26)), 'a'+rune(r.Intn(26)), r.Intn(10), i)
				case 1:
					return gen.Pick(r, []string{"web+https://example.org/", "git+ssh://example.org/r.git", "sftp://example.org/f", "ftp://example.org/f", "x-app:open"})
				case 2:
					return gen.Pick(r, []string{"data:image/png;base64,iVBO Rw0K\nGgo=", "data:image/gif;base64,R0lG\r\nODlhAQABAAAAACw=", "data:image/png;base64,\tiVBORw0KGgo=", " data:image/jpeg;base64,/9j/ 4AAQ"})
				case 3:
					return gen.CanonicalURL(r, gen.Pick(r, []string{"http", "https", "mailto", ""}))
				}
				return gen.HostileURL(r)
			}
			inputs[i] = fmt.Sprintf(`<a href="%s" rel="x">a</a><img src="%s" alt="i"><blockquote cite="%s">q</blockquote><video poster="%s" src="%s"></video><iframe src="%s"></iframe><q cite="%s">q</q>`,
				gen.CanonEscape(u()), gen.CanonEscape(u()), gen.CanonEscape(u()), gen.CanonEscape(u()), gen.CanonEscape(u()), gen.CanonEscape(u()), gen.CanonEscape(u()))
		}
		if i%5 == 2 {
			// the same attribute text on elements the policy treats differently (one element per input,
			// and all of them in one input): a result must not depend on which was seen first
			sty := gen.Pick(r, []string{"color: #abc", "color: 42", "color: safe-abc", "color: _AB", "color: x-a1", "color: abc", "-webkit--moz-color: red", "mso--ms-float: left; -moz--webkit-color: blue", "float: left", "color: red", "margin: abc; color: blue", "width: 10px", "color: blue; float: right", "COLOR: RED"})
			val := gen.Pick(r, []string{"abc", "42", "#abc", "left", "x-a1"})
			els := []string{"div", "span", "p", "my-x", "my-y", "x-foo", "b", "td", "a"}
			if r.Intn(3) == 0 {
				var b strings.Builder
				for _, el := range els {
					fmt.Fprintf(&b, `<%s style="%s" id="%s" title="%s">t</%s>`, el, sty, val, val, el)
				}
				inputs[i] = b.String()
			} else {
				el := els[r.Intn(len(els))]
				inputs[i] = fmt.Sprintf(`<%s style="%s" id="%s" title="%s">t</%s>`, el, sty, val, val, el)
			}
		}
		if i%5 == 3 && idx >= 3 {
			// forced attributes with repeated, permitted and unknown tokens in every order (whatever the
			// sanitiser rebuilds must come out the same way every time)
			toks := []string{"allow-forms", "allow-scripts", "allow-popups", "allow-same-origin", "allow-modals", "bogus", "ALLOW-FORMS", "allow-top-navigation"}
			var sb []string
			for k := 2 + r.Intn(5); k > 0; k-- {
				sb = append(sb, toks[r.Intn(len(toks))])
			}
			sb = append(sb, sb[0], sb[r.Intn(len(sb))])
			inputs[i] = fmt.Sprintf(`<iframe src="http://example.org/" sandbox="%s"></iframe><a href="http://example.org/%s" rel="x nofollow x" target="_blank" rel="y">l</a><img src="/i.png" crossorigin="use-credentials" crossorigin="x"><a href="%s">u</a>`,
				strings.Join(sb, " "), gen.RandIdent(r, 4), gen.CanonEscape(gen.HostileURL(r)))
		}
		if len(inputs[i]) > 1500 {
			inputs[i] = inputs[i][:1500]
		}
		if strings.TrimSpace(inputs[i]) == "" {
			// whitespace-only input is returned as it is by Sanitize/SanitizeBytes and normalised by the
			// reader entry points (C15 allows that); the entry points are compared with each other here
			inputs[i] = "<b>blank</b>" + inputs[i]
		}
	}
	// one large input (output beyond 64 KiB) for two of the policies: size-dependent bookkeeping is reached too
	if nIn > 20 && (idx == 1 || idx == 4) {
		for k, sz := range []int{68000} {
			var b strings.Builder
			for b.Len() < sz {
				b.WriteString("<p>paragraph <b>bold</b> &amp; text ")
				b.WriteString(gen.RandIdent(r, 8))
				b.WriteString("</p>\n")
			}
			inputs[11+k*13] = b.String()
		}
	}
	return inputs
}

// c13Cold runs in a process that has not sanitised anything yet: the very first calls of the process
// are made by all goroutines at once (different inputs per goroutine, every input on two goroutines),
// so that package-level state the sanitiser initialises on first use is first touched under
// contention. The sequential baseline is computed AFTERWARDS and compared.
func c13Cold(ctx *core.Ctx, only, k int) {
	pols := c13Policies(ctx)
	const G = 64
	nIn := ctx.N(120, 300)
	cs := &core.Case{Ctx: ctx, Stream: "cold-process", Index: only*1000 + k, R: ctx.StreamRand(fmt.Sprintf("cold-process-%d-%d", only, k))}
	env := NewEnv(pols[only]) // builds the policy, sanitises nothing
	inputs := c13Inputs(cs.R, env, only, nIn)
	pol := spec.Build(env.Ops)
	other := spec.Build(spec.UGCOps())
	res := make([]string, 2*nIn)
	resOther := make([]string, 2*nIn)
	start := make(chan struct{})
	var wg sync.WaitGroup
	for g := 0; g < G; g++ {
		wg.Add(1)
		go func(g int) {
			defer wg.Done()
			<-start
			for j := g; j < 2*nIn; j += G {
				i := (j*7 + k) % nIn
				res[j] = SanitizeVia(pol, inputs[i], j)
				if j%3 == 0 {
					resOther[j] = other.Sanitize(inputs[i])
				}
			}
		}(g)
	}
	close(start)
	wg.Wait()
	cs.EvalN(2 * nIn)
	for j := range res {
		i := (j*7 + k) % nIn
		want := pol.Sanitize(inputs[i])
		if res[j] != want {
			cs.Violate("C13:cold-process-differs:"+firstDiffToken(res[j], want), fmt.Sprintf("one of the first (concurrent) calls of the process returned %q, the sequential result afterwards is %q; input=%q", core.Clip(res[j], 200), core.Clip(want, 200), core.Clip(inputs[i], 200)),
				map[string]interface{}{"policy": spec.Describe(env.Ops), "ops": env.Ops, "input": core.Show(inputs[i]), "got": core.Show(res[j]), "sequential_result": core.Show(want)})
			break
		}
		if j%3 == 0 {
			if wo := other.Sanitize(inputs[i]); resOther[j] != wo {
				cs.Violate("C13:cold-process-differs:second-policy", fmt.Sprintf("a second policy in the first (concurrent) calls of the process returned %q, sequentially %q; input=%q", core.Clip(resOther[j], 200), core.Clip(wo, 200), core.Clip(inputs[i], 200)),
					map[string]interface{}{"policy": "UGCPolicy", "input": core.Show(inputs[i])})
				break
			}
		}
	}
	cs.Count("cold_process_first_calls", 2*nIn)
	cs.Count("cold_processes", 1)
}

// c13Stress runs the stress for one policy (in the child process).
func c13Stress(ctx *core.Ctx, only int) {
	pols := c13Policies(ctx)
	nIn := ctx.N(120, 300)
	rounds := ctx.N(12, 120)
	repeats := ctx.N(25, 100)
	const G = 64
	var inFlight, highWater int64
	ctx.RunSeq("stress", len(pols), func(cs *core.Case) {
		if cs.Index != only {
			return
		}
		env := NewEnv(pols[cs.Index])
		r := cs.R
		inputs := c13Inputs(r, env, cs.Index, nIn)
		// a policy must not grow with every call: the same inputs three times over on a never-used
		// instance. Something filled once (a cache) stops growing after the first round; state that
		// grows again in the second and third round is a leak that changes later calls (at least their cost)
		{
			pg := spec.Build(env.Ops)
			size := func() int {
				fp := Fingerprint(pg)
				n, _ := strconv.Atoi(fp[strings.LastIndex(fp, "/")+1:])
				return n
			}
			s0 := size()
			var sz [3]int
			for round := 0; round < 3; round++ {
				for _, in := range inputs[:nIn/2] {
					pg.Sanitize(in)
				}
				sz[round] = size()
			}
			cs.Count("growth_rounds", 3)
			if sz[1] > sz[0] && sz[2] > sz[1] && sz[2]-sz[1] >= (sz[1]-sz[0])/2 {
				cs.Violate("C13:policy-grows-with-every-call", fmt.Sprintf("the policy's reachable state grows every time the same %d inputs are sanitised again: size %d before, %d / %d / %d after rounds 1-3", nIn/2, s0, sz[0], sz[1], sz[2]),
					map[string]interface{}{"policy": spec.Describe(env.Ops), "ops": env.Ops, "sizes": []int{s0, sz[0], sz[1], sz[2]}})
				return // later phases would only get slower and slower
			}
		}
		fp0 := Fingerprint(env.Pol)
		base := make([]string, nIn)
		for i, in := range inputs {
			base[i] = env.Pol.Sanitize(in)
		}
		wit := func(i int, extra map[string]interface{}) map[string]interface{} {
			w := map[string]interface{}{"policy": spec.Describe(env.Ops), "ops": env.Ops, "input": core.Show(inputs[i]), "sequential_result": core.Show(base[i])}
			for k, v := range extra {
				w[k] = v
			}
			return w
		}
		// history independence: every input through a policy instance that has never seen anything else
		// must give what the shared instance gave after having seen all the inputs before it
		for i, in := range inputs {
			if got := spec.Build(env.Ops).Sanitize(in); got != base[i] {
				cs.Violate("C13:depends-on-earlier-calls:"+firstDiffToken(got, base[i]), fmt.Sprintf("a policy that has sanitised other inputs before returns %q, a freshly built equal policy returns %q; input=%q", core.Clip(base[i], 200), core.Clip(got, 200), core.Clip(in, 200)), wit(i, map[string]interface{}{"fresh_instance_result": core.Show(got)}))
				break
			}
		}
		cs.Count("history_independence_comparisons", nIn)
		// sequential repetition: map iteration order is re-randomised per range
		for i, in := range inputs {
			for k := 0; k < repeats; k++ {
				got := SanitizeVia(env.Pol, in, k)
				cs.Eval()
				if got != base[i] {
					cs.Violate("C13:sequential-nondeterminism:"+firstDiffToken(got, base[i]), fmt.Sprintf("repeated sequential call %d via %s returned %q, first call returned %q; input=%q", k, EntryNames[k%5], core.Clip(got, 200), core.Clip(base[i], 200), core.Clip(in, 200)), wit(i, map[string]interface{}{"got": core.Show(got)}))
					break
				}
			}
		}
		cs.Count("sequential_repeat_calls", nIn*repeats)
		// cold start: a policy that has never sanitised anything is hit by all goroutines at once, so that
		// lazily initialised state is first touched concurrently (the baseline above would otherwise
		// have initialised it sequentially); a second, different policy runs in the same goroutines
		other := spec.Build(spec.UGCOps())
		otherBase := make([]string, nIn)
		for i, in := range inputs {
			otherBase[i] = other.Sanitize(in)
		}
		for k := 0; k < ctx.N(12, 60); k++ {
			fresh := spec.Build(env.Ops)
			freshOther := spec.Build(spec.UGCOps())
			start := make(chan struct{})
			var cw sync.WaitGroup
			for g := 0; g < G; g++ {
				cw.Add(1)
				go func(g int) {
					defer cw.Done()
					<-start
					i := (g*7 + k) % nIn
					if got := SanitizeVia(fresh, inputs[i], g); got != base[i] {
						cs.Violate("C13:cold-start-differs:"+firstDiffToken(got, base[i]), fmt.Sprintf("first concurrent calls on a freshly built policy returned %q, sequential result is %q; input=%q", core.Clip(got, 200), core.Clip(base[i], 200), core.Clip(inputs[i], 200)), wit(i, map[string]interface{}{"got": core.Show(got)}))
					}
					if got := SanitizeVia(freshOther, inputs[i], g+1); got != otherBase[i] {
						cs.Violate("C13:cold-start-differs:second-policy", fmt.Sprintf("a second policy used concurrently returned %q, alone it returns %q; input=%q", core.Clip(got, 200), core.Clip(otherBase[i], 200), core.Clip(inputs[i], 200)), wit(i, map[string]interface{}{"got": core.Show(got)}))
					}
				}(g)
			}
			close(start)
			cw.Wait()
			cs.EvalN(2 * G)
			cs.Count("cold_start_concurrent_calls", 2*G)
		}
		// concurrent stress, on a policy instance that has never sanitised anything: whatever the
		// sanitiser initialises or caches lazily is first touched under contention
		stressPol := spec.Build(env.Ops)
		fpStress0 := Fingerprint(stressPol)
		var wg sync.WaitGroup
		var mism int64
		var overlap [4]int64
		for g := 0; g < G; g++ {
			wg.Add(1)
			go func(g int) {
				defer wg.Done()
				gr := rand.New(rand.NewSource(int64(g)*7919 + ctx.Seed + int64(cs.Index)))
				for round := 0; round < rounds; round++ {
					for _, i := range gr.Perm(nIn) {
						n := atomic.AddInt64(&inFlight, 1)
						switch {
						case n >= 48:
							atomic.AddInt64(&overlap[3], 1)
						case n >= 16:
							atomic.AddInt64(&overlap[2], 1)
						case n >= 4:
							atomic.AddInt64(&overlap[1], 1)
						default:
							atomic.AddInt64(&overlap[0], 1)
						}
						for {
							hw := atomic.LoadInt64(&highWater)
							if n <= hw || atomic.CompareAndSwapInt64(&highWater, hw, n) {
								break
							}
						}
						got := SanitizeVia(stressPol, inputs[i], g+round+i)
						atomic.AddInt64(&inFlight, -1)
						if (g+i)%16 == 0 { // a different policy in the same goroutines: state shared between policies shows here
							if o := other.Sanitize(inputs[i]); o != otherBase[i] && atomic.AddInt64(&mism, 1) <= 3 {
								cs.Violate("C13:concurrent-differs:second-policy", fmt.Sprintf("a second policy used concurrently returned %q, alone it returns %q; input=%q", core.Clip(o, 200), core.Clip(otherBase[i], 200), core.Clip(inputs[i], 200)), wit(i, map[string]interface{}{"got": core.Show(o)}))
							}
						}
						if got != base[i] {
							if atomic.AddInt64(&mism, 1) <= 3 {
								cs.Violate("C13:concurrent-differs:"+firstDiffToken(got, base[i]), fmt.Sprintf("concurrent call via %s returned %q, sequential result is %q; input=%q", EntryNames[(g+round+i)%5], core.Clip(got, 200), core.Clip(base[i], 200), core.Clip(inputs[i], 200)), wit(i, map[string]interface{}{"got": core.Show(got)}))
							}
						}
					}
				}
			}(g)
		}
		wg.Wait()
		for b, name := range []string{"calls_started_with_1-3_in_flight", "calls_started_with_4-15_in_flight", "calls_started_with_16-47_in_flight", "calls_started_with_48-64_in_flight"} {
			cs.Count(name, int(atomic.LoadInt64(&overlap[b])))
		}
		cs.EvalN(G * rounds * nIn)
		cs.Count("concurrent_calls", G*rounds*nIn)
		// after the stress
		for i, in := range inputs {
			if got := stressPol.Sanitize(in); got != base[i] {
				cs.Violate("C13:baseline-changed-after-stress:"+firstDiffToken(got, base[i]), fmt.Sprintf("after the stress Sanitize returns %q, before it returned %q; input=%q", core.Clip(got, 200), core.Clip(base[i], 200), core.Clip(in, 200)), wit(i, map[string]interface{}{"got": core.Show(got)}))
				break
			}
			if base[i] != "" {
				cs.Nontrivial(core.Hash(fmt.Sprint(cs.Index), in))
			}
		}
		// The reflection fingerprint is an observation, not a verdict: state that changes inside the
		// policy without any observable effect (no race report, no differing result, unchanged later
		// behaviour) does not refute the property, e.g. a cache filled under a lock.
		if fp1, fp2 := Fingerprint(env.Pol), Fingerprint(stressPol); fp1 != fp0 || fp2 != fpStress0 {
			cs.Count("policies_whose_internal_state_changed_while_sanitising", 1)
		}
		cs.Count("policies_stressed", 1)
		cs.Sample("policy", map[string]interface{}{"policy": spec.Describe(env.Ops), "inputs": nIn, "goroutines": G, "rounds": rounds, "example_input": core.Show(core.Clip(inputs[0], 200)), "fingerprint": fp0})
	})
	ctx.ExtraMax("in_flight_high_water_mark", atomic.LoadInt64(&highWater))
}

func init() {
	childModes["c13"] = func(args []string) int {
		if len(args) != 3 {
			return core.ExitInconclusive
		}
		seed, _ := strconv.ParseInt(args[0], 10, 64)
		idx, _ := strconv.Atoi(args[2])
		ctx := core.NewCtx("C13", args[1], seed)
		c13Stress(ctx, idx)
		fmt.Printf("\nVMON-CHILD-STATE %s\n", ctx.ExportState())
		return 0
	}
}

func init() {
	childModes["c13cold"] = func(args []string) int {
		if len(args) != 4 {
			return core.ExitInconclusive
		}
		seed, _ := strconv.ParseInt(args[0], 10, 64)
		idx, _ := strconv.Atoi(args[2])
		k, _ := strconv.Atoi(args[3])
		ctx := core.NewCtx("C13", args[1], seed)
		c13Cold(ctx, idx, k)
		fmt.Printf("\nVMON-CHILD-STATE %s\n", ctx.ExportState())
		return 0
	}
}

var frameRe = regexp.MustCompile(`(?m)^  ([A-Za-z0-9_./()*\-]+)\(\)$`)

// raceSignature: the first non-runtime frame of each of the two stacks.
func raceSignature(blk string) string {
	parts := strings.Split(blk, "\n\n")
	var tops []string
	for _, p := range parts {
		if !strings.Contains(p, " by goroutine") && !strings.Contains(p, "by main goroutine") {
			continue
		}
		for _, m := range frameRe.FindAllStringSubmatch(p, -1) {
			fn := m[1]
			if strings.HasPrefix(fn, "runtime.") || strings.HasPrefix(fn, "sync") {
				continue
			}
			if i := strings.LastIndex(fn, "/"); i >= 0 {
				fn = fn[i+1:]
			}
			tops = append(tops, fn)
			break
		}
		if len(tops) == 2 {
			break
		}
	}
	if len(tops) == 0 {
		return "unparsed"
	}
	return strings.Join(tops, "|")
}
