package mon

import (
	"bytes"
	"fmt"
	"math/rand"
	"sort"
	"strings"
	"sync"

	"github.com/microcosm-cc/bluemonday"

	"verif/harness/internal/gen"
	"verif/harness/internal/spec"
)

// Env couples a recorded builder history, its shadow model and the real policy.
type Env struct {
	Ops  []spec.Op
	Spec *spec.Spec
	Pol  *bluemonday.Policy

	mu        sync.Mutex // guards the lazily filled caches below (an Env may be shared by workers)
	elCands   []string
	attrCands map[string][]string
	recent    map[string]string // attribute name -> a value used recently (reused across elements)
}

func NewEnv(ops []spec.Op) *Env {
	e := &Env{Ops: ops, Spec: spec.FromOps(ops), Pol: spec.Build(ops), attrCands: map[string][]string{}}
	return e
}

// NewEnvCased builds the real policy with re-cased name arguments (the shadow model is
// case-insensitive by construction).
func NewEnvCased(ops []spec.Op, c spec.Casing) *Env {
	return &Env{Ops: ops, Spec: spec.FromOps(ops), Pol: spec.BuildCased(ops, c), attrCands: map[string][]string{}}
}

var allElementVocab = func() []string {
	var v []string
	seen := map[string]bool{}
	for _, l := range [][]string{gen.ElOrdinary, gen.ElVoid, gen.ElRawText, gen.ElSkip, gen.ElForeign, gen.ElCustom, gen.ElMedia, gen.ElDanger, gen.ElOdd, gen.ElAll} {
		for _, n := range l {
			if !seen[n] {
				seen[n] = true
				v = append(v, n)
			}
		}
	}
	return v
}()

// ElementCandidates: explicit names, vocabulary names matched by a pattern
// (these are the interesting ones) and a sample of everything else.
func (e *Env) ElementCandidates() []string {
	e.mu.Lock()
	defer e.mu.Unlock()
	if e.elCands != nil {
		return e.elCands
	}
	seen := map[string]bool{}
	var out []string
	add := func(n string, w int) {
		for i := 0; i < w; i++ {
			out = append(out, n)
		}
		seen[n] = true
	}
	for _, n := range e.Spec.AllowedElementNames() {
		add(n, 3)
	}
	// look-alikes of allowed names: runes that Unicode case mapping/folding turns into ASCII
	// letters (U+212A -> k, U+0130 -> i, U+017F -> s); browsers and the tokenizer lower-case
	// ASCII only, so these are different, unlisted elements
	for _, n := range e.Spec.AllowedElementNames() {
		for _, sub := range [][2]string{{"k", "\u212a"}, {"i", "\u0130"}, {"s", "\u017f"}} {
			if i := strings.Index(n[1:], sub[0]); i >= 0 && len(n) > 1 {
				v := n[:1+i] + sub[1] + n[1+i+1:]
				if !seen[v] && !e.Spec.ElementAllowed(v) {
					add(v, 1)
				}
			}
		}
	}
	// near-misses of allowed names (one character more at either end): a substring or prefix match
	// where an exact one is due admits them
	for _, n := range e.Spec.AllowedElementNames() {
		for _, v := range []string{n + "2", "x" + n, n + "-"} {
			if !seen[v] && !e.Spec.ElementAllowed(v) && len(out) < 4000 {
				add(v, 1)
			}
		}
	}
	for _, n := range allElementVocab {
		if !seen[n] && e.Spec.ElementAllowed(n) {
			add(n, 2)
		}
	}
	for n := range e.Spec.Skip {
		if !seen[n] {
			add(n, 1)
		}
	}
	for _, n := range allElementVocab {
		if !seen[n] {
			add(n, 1)
		}
	}
	sort.Strings(out)
	e.elCands = out
	return out
}

func (e *Env) ruleAttrs(el string) []string {
	e.mu.Lock()
	defer e.mu.Unlock()
	if v, ok := e.attrCands[el]; ok {
		return v
	}
	set := map[string]bool{}
	for k := range e.Spec.Els[el] {
		set[k] = true
	}
	for _, p := range e.Spec.ElPats {
		if gen.Re(p.Re).MatchString(el) {
			for k := range p.Attrs {
				set[k] = true
			}
		}
	}
	for k := range e.Spec.Global {
		set[k] = true
	}
	if e.Spec.HasStyleRules(el) {
		set["style"] = true
	}
	out := make([]string, 0, len(set))
	for k := range set {
		out = append(out, k)
	}
	sort.Strings(out)
	e.attrCands[el] = out
	return out
}

var relPool = []string{"tag\fnofollow", "a\rb nofollow", "x\fy", "nofollow\f", "opener", "OPENER", "follow", "referrer", "no opener", "noopener-x", "xnoopener", "nofollo", "tag\u00a0", "author\u3000", "me\x0b", "nofollow", "noopener", "noreferrer", "nofollow noopener", "NOFOLLOW", "xnofollowx", "noopenerx", "author", "a b", "nofollow\tnoreferrer", "nofollow\nx", "nofollow nofollow", " ", "", "external nofollow noopener noreferrer", "NoOpener", "noreferrernofollow"}
var targetPool = []string{"_blank", "_self", "_BLANK", "_top", "frame1", "", " _blank", "_blank "}

// StyleKnown lists (property, sample values) for the element from the shadow rules.
func (e *Env) StyleKnown(el string) []gen.StyleDecl {
	var out []gen.StyleDecl
	add := func(prop string, rules []spec.StyleRule) {
		d := gen.StyleDecl{Prop: prop}
		for _, r := range rules {
			switch r.Kind {
			case "enum":
				d.Values = append(d.Values, r.Enum...)
			case "handler":
				d.Values = append(d.Values, "abc", "123", "safe-abc", "x")
			case "re":
				d.Values = append(d.Values, "red", "abc", "10px", "#abc", "12%")
			default:
				d.Values = append(d.Values, "red", "10px", "left", "none", "#fff", "bold", "1", "inherit", "auto", "url(http://example.org/a.png)")
			}
		}
		out = append(out, d)
	}
	props := map[string]bool{}
	for p := range e.Spec.StyEls[el] {
		props[p] = true
	}
	for _, sp := range e.Spec.StyPats {
		if gen.Re(sp.Re).MatchString(el) {
			for p := range sp.Props {
				props[p] = true
			}
		}
	}
	for p := range e.Spec.StyGlobal {
		props[p] = true
	}
	names := make([]string, 0, len(props))
	for p := range props {
		names = append(names, p)
	}
	sort.Strings(names)
	for _, p := range names {
		add(p, e.Spec.StyleRulesLenient(el, p))
	}
	return out
}

// AttrValue draws a decoded value for (el, key).
func (e *Env) AttrValue(r *rand.Rand, el, key string) string {
	if r.Intn(60) == 0 { // a value longer than any small buffer
		v := e.attrValue(r, el, key)
		if v == "" {
			v = "x"
		}
		long := strings.Repeat(v, 1100/len(v)+1+r.Intn(3))
		if r.Intn(2) == 0 {
			// a long in-language prefix with a tail that is not: matchers must see the whole value
			long += gen.Pick(r, []string{"<x>", "\"", " onerror=alert(1)", "!", "\x00", "Z z", "é"})
		}
		return long
	}
	return e.attrValue(r, el, key)
}

func (e *Env) attrValue(r *rand.Rand, el, key string) string {
	switch key {
	case "style":
		if r.Intn(4) > 0 {
			return gen.StyleAttr(r, e.StyleKnown(el), r.Intn(3) == 0)
		}
	case "href", "src", "cite", "xlink:href", "action", "background", "poster", "formaction":
		switch r.Intn(6) {
		case 0, 1:
			return gen.HostileURL(r)
		case 2, 3:
			sch := []string{"", "http", "https", "mailto"}
			for s := range e.Spec.Schemes {
				sch = append(sch, s)
			}
			sort.Strings(sch)
			return gen.CanonicalURL(r, sch[r.Intn(len(sch))])
		}
	case "rel":
		if r.Intn(3) > 0 {
			return relPool[r.Intn(len(relPool))]
		}
	case "target":
		if r.Intn(3) > 0 {
			return targetPool[r.Intn(len(targetPool))]
		}
	case "sandbox":
		if r.Intn(3) > 0 {
			n := r.Intn(4)
			toks := []string{}
			for i := 0; i < n; i++ {
				toks = append(toks, gen.Pick(r, append(append([]string{}, spec.SandboxNames...), "allow-everything", "ALLOW-SCRIPTS", "x")))
			}
			return strings.Join(toks, gen.Pick(r, []string{" ", "  ", "\t", "\n"}))
		}
	case "crossorigin":
		return gen.Pick(r, []string{"anonymous", "use-credentials", "", "ANONYMOUS", "x"})
	}
	if r.Intn(5) == 0 {
		// a keyword HTML itself defines for this attribute
		if v, ok := gen.WellKnownAttrValue(r, asciiLowerStr(key)); ok {
			return v
		}
	}
	rules := e.Spec.RulesLenient(el, key)
	if len(rules) > 0 && r.Intn(5) > 0 {
		ru := rules[r.Intn(len(rules))]
		if ru.Re != "" {
			good, bad := gen.Pools(ru.Re)
			if len(good) > 0 && r.Intn(15) == 0 {
				// an accepted value with one character spelled as the TEXT of a character reference: decoded
				// once (as the attribute value is) it still carries "&#..;", decoded twice it is the accepted value
				g := good[r.Intn(len(good))]
				if g != "" {
					k := r.Intn(len(g))
					if g[k] < 0x80 {
						return g[:k] + fmt.Sprintf(gen.Pick(r, []string{"&#%d;", "&#x%x;", "&#%d"}), g[k]) + g[k+1:]
					}
				}
			}
			if len(good) > 0 && (r.Intn(3) > 0 || len(bad) == 0) {
				return good[r.Intn(len(good))]
			}
			if len(bad) > 0 {
				return bad[r.Intn(len(bad))]
			}
		}
	}
	if r.Intn(3) == 0 {
		return gen.RandIdent(r, 1+r.Intn(6))
	}
	return gen.HostileValue(r)
}

// Attrs draws an attribute list for el.
func (e *Env) Attrs(r *rand.Rand, el string) [][2]string {
	n := r.Intn(5)
	if n > 0 && r.Intn(3) == 0 {
		n = 1
	}
	if r.Intn(40) == 0 { // a long attribute list: position- and count-dependent code paths
		n = 10 + r.Intn(30)
	}
	var out [][2]string
	ra := e.ruleAttrs(el)
	for i := 0; i < n; i++ {
		var k string
		switch {
		case len(ra) > 0 && r.Intn(2) == 0:
			k = ra[r.Intn(len(ra))]
		case r.Intn(12) == 0:
			k = gen.Pick(r, []string{`a"b`, `a'b`, "a<b", "a=b", "x/y", "é", "STYLE", "HrEf", "data-ü", "onclick"})
		default:
			k = gen.AttrVocab[r.Intn(len(gen.AttrVocab))]
		}
		val := e.AttrValue(r, el, k)
		// the same (name, value) pair again on another element: what one element's rules accept
		// another's may refuse
		e.mu.Lock()
		if e.recent == nil {
			e.recent = map[string]string{}
		}
		if prev, ok := e.recent[k]; ok && r.Intn(8) == 0 {
			val = prev
		} else if r.Intn(4) == 0 || len(val) >= 128 {
			e.recent[k] = val
		}
		e.mu.Unlock()
		switch r.Intn(24) {
		case 2:
			// a namespace-prefixed spelling of the name: another attribute altogether
			k = gen.Pick(r, []string{"xml:", "xlink:", "x:", "xmlns:"}) + k
		case 0:
			// the attribute's own name as its value (the XHTML spelling of a boolean attribute)
			val = gen.Pick(r, []string{k, strings.ToUpper(k)})
		case 1:
			// a look-alike of the name: U+212A / U+0130 / U+017F lower- or upper-case to ASCII letters under
			// Unicode case mapping, but the tokenizer and browsers only fold A-Z
			for _, sub := range [][2]string{{"k", "\u212a"}, {"i", "\u0130"}, {"s", "\u017f"}} {
				if strings.Contains(k, sub[0]) && r.Intn(2) == 0 {
					k = strings.Replace(k, sub[0], sub[1], 1)
					break
				}
			}
		}
		out = append(out, [2]string{k, val})
		if r.Intn(10) == 0 { // duplicated attribute
			out = append(out, [2]string{k, e.AttrValue(r, el, k)})
		}
	}
	return out
}

func (e *Env) DocOpts(noise int, extras bool) gen.DocOpts {
	return gen.DocOpts{Elements: e.ElementCandidates(), Attrs: e.Attrs, Text: gen.HostileText, MaxDepth: 4, MaxKids: 4, Noise: noise, Extras: extras}
}

// deepDocOpts: narrow and deep (nesting-depth dependent code paths).
func (e *Env) deepDocOpts(noise int) gen.DocOpts {
	return gen.DocOpts{Elements: e.ElementCandidates(), Attrs: e.Attrs, Text: gen.HostileText, MaxDepth: 14, MaxKids: 2, Noise: noise, Extras: true}
}

// HostileInput draws one input: a noisy generated document (70%), a corpus
// mutant (25%) or a verbatim corpus entry (5%).
func (e *Env) HostileInput(r *rand.Rand) string {
	if r.Intn(500) == 0 {
		// a large document: thousands of tokens (count- and offset-dependent code paths)
		var b strings.Builder
		for n := 50 + r.Intn(120); n > 0; n-- {
			b.WriteString(e.hostileInput(r))
		}
		return b.String()
	}
	return e.hostileInput(r)
}

// URLHeavyDoc: every URL position filled with a hostile URL.
func URLHeavyDoc(r *rand.Rand) string {
	u := func() string {
		if r.Intn(2) == 0 {
			return gen.CanonEscape(gen.SoupURL(r))
		}
		return gen.CanonEscape(gen.HostileURL(r))
	}
	switch r.Intn(3) {
	case 0:
		return fmt.Sprintf(`<img src="%s" alt="i">`, u())
	case 1:
		return fmt.Sprintf(`<a href="%s" rel="x">a</a><img src="%s"><blockquote cite="%s">q</blockquote>`, u(), u(), u())
	}
	return fmt.Sprintf(`<a href="%s">a</a><area href="%s"><link href="%s"><base href="%s"><img src="%s"><audio src="%s"></audio><video src="%s" poster="%s"></video><source src="%s"><track src="%s"><embed src="%s"><input src="%s" type="image"><iframe src="%s"></iframe><script src="%s"></script><q cite="%s">q</q><del cite="%s">d</del><ins cite="%s">i</ins>`,
		u(), u(), u(), u(), u(), u(), u(), u(), u(), u(), u(), u(), u(), u(), u(), u(), u())
}

func (e *Env) hostileInput(r *rand.Rand) string {
	if r.Intn(20) == 0 {
		return URLHeavyDoc(r)
	}
	switch k := r.Intn(20); {
	case k < 14:
		o := e.DocOpts(1+r.Intn(3), true)
		if r.Intn(25) == 0 {
			o = e.deepDocOpts(1 + r.Intn(2))
		}
		return gen.Serialize(r, gen.RandomTree(r, o, 0), o.Noise)
	case k < 19:
		c := gen.Corpus()
		return gen.Mutate(r, c[r.Intn(len(c))])
	default:
		c := gen.Corpus()
		return c[r.Intn(len(c))]
	}
}

// plainWriter hides bytes.Buffer's WriteString so the asStringWriter path runs.
type plainWriter struct{ b *bytes.Buffer }

func (p plainWriter) Write(b []byte) (int, error) { return p.b.Write(b) }

var EntryNames = []string{"Sanitize", "SanitizeBytes", "SanitizeReader", "SanitizeReaderToWriter", "SanitizeReaderToWriter(plain io.Writer)"}

// SanitizeVia runs input through entry point k (0..4).
func SanitizeVia(p *bluemonday.Policy, in string, k int) string {
	switch k % 5 {
	case 0:
		return p.Sanitize(in)
	case 1:
		return string(p.SanitizeBytes([]byte(in)))
	case 2:
		return p.SanitizeReader(strings.NewReader(in)).String()
	case 3:
		var b bytes.Buffer
		if err := p.SanitizeReaderToWriter(strings.NewReader(in), &b); err != nil {
			return ""
		}
		return b.String()
	default:
		var b bytes.Buffer
		if err := p.SanitizeReaderToWriter(strings.NewReader(in), plainWriter{&b}); err != nil {
			return ""
		}
		return b.String()
	}
}

func asciiLowerStr(s string) string {
	b := []byte(s)
	for i, c := range b {
		if c >= 'A' && c <= 'Z' {
			b[i] = c + 32
		}
	}
	return string(b)
}
