package mon

import (
	"fmt"
	"hash/fnv"
	"reflect"
	"regexp"
	"sort"
	"strings"
	"unsafe"
)

// Fingerprint is a generic, read-only deep walk of a value (including
// unexported fields): maps sorted by key, regexps by pointer+source, funcs by
// code pointer. It adapts to added/removed fields and is used only to detect
// mutation (before/after equality), never to read semantics.
func Fingerprint(v interface{}) string {
	var b strings.Builder
	fpWalk(&b, reflect.ValueOf(v), 0, map[uintptr]bool{})
	h := fnv.New64a()
	h.Write([]byte(b.String()))
	return fmt.Sprintf("%016x/%d", h.Sum64(), b.Len())
}

var regexpType = reflect.TypeOf(&regexp.Regexp{})

func fpWalk(b *strings.Builder, v reflect.Value, depth int, seen map[uintptr]bool) {
	if depth > 12 {
		b.WriteString("<deep>")
		return
	}
	if !v.IsValid() {
		b.WriteString("<nil>")
		return
	}
	// make unexported fields readable
	if v.CanAddr() && !v.CanInterface() {
		v = reflect.NewAt(v.Type(), unsafe.Pointer(v.UnsafeAddr())).Elem()
	}
	switch v.Kind() {
	case reflect.Ptr:
		if v.IsNil() {
			b.WriteString("nil")
			return
		}
		if v.Type() == regexpType {
			re := v.Interface().(*regexp.Regexp)
			fmt.Fprintf(b, "re(%p,%q)", re, re.String())
			return
		}
		p := v.Pointer()
		if seen[p] {
			fmt.Fprintf(b, "cycle(%x)", p)
			return
		}
		seen[p] = true
		b.WriteString("&")
		fpWalk(b, v.Elem(), depth+1, seen)
	case reflect.Struct:
		b.WriteString(v.Type().Name() + "{")
		for i := 0; i < v.NumField(); i++ {
			b.WriteString(v.Type().Field(i).Name + ":")
			f := v.Field(i)
			if !f.CanAddr() {
				// copy into addressable storage
				c := reflect.New(v.Type()).Elem()
				c.Set(v)
				f = c.Field(i)
			}
			fpWalk(b, f, depth+1, seen)
			b.WriteString(",")
		}
		b.WriteString("}")
	case reflect.Map:
		if v.IsNil() {
			b.WriteString("nilmap")
			return
		}
		type kv struct{ k, v string }
		var items []kv
		it := v.MapRange()
		for it.Next() {
			var kb, vb strings.Builder
			fpWalk(&kb, it.Key(), depth+1, seen)
			fpWalk(&vb, it.Value(), depth+1, seen)
			items = append(items, kv{kb.String(), vb.String()})
		}
		sort.Slice(items, func(i, j int) bool { return items[i].k < items[j].k })
		fmt.Fprintf(b, "map[%d]{", len(items))
		for _, it := range items {
			b.WriteString(it.k + "=>" + it.v + ";")
		}
		b.WriteString("}")
	case reflect.Slice:
		if v.IsNil() {
			b.WriteString("nilslice")
			return
		}
		fmt.Fprintf(b, "[%d cap%d]{", v.Len(), v.Cap())
		for i := 0; i < v.Len(); i++ {
			fpWalk(b, v.Index(i), depth+1, seen)
			b.WriteString(",")
		}
		b.WriteString("}")
	case reflect.Array:
		b.WriteString("[")
		for i := 0; i < v.Len(); i++ {
			fpWalk(b, v.Index(i), depth+1, seen)
			b.WriteString(",")
		}
		b.WriteString("]")
	case reflect.Func:
		if v.IsNil() {
			b.WriteString("nilfunc")
		} else {
			fmt.Fprintf(b, "func(%x)", v.Pointer())
		}
	case reflect.Interface:
		if v.IsNil() {
			b.WriteString("nilif")
		} else {
			fpWalk(b, v.Elem(), depth+1, seen)
		}
	case reflect.String:
		fmt.Fprintf(b, "%q", v.String())
	case reflect.Bool:
		fmt.Fprintf(b, "%v", v.Bool())
	case reflect.Int, reflect.Int8, reflect.Int16, reflect.Int32, reflect.Int64:
		fmt.Fprintf(b, "%d", v.Int())
	case reflect.Uint, reflect.Uint8, reflect.Uint16, reflect.Uint32, reflect.Uint64, reflect.Uintptr:
		fmt.Fprintf(b, "%d", v.Uint())
	case reflect.Float32, reflect.Float64:
		fmt.Fprintf(b, "%v", v.Float())
	default:
		fmt.Fprintf(b, "<%s>", v.Kind())
	}
}
