package mon

import (
	"fmt"
	"strings"

	"golang.org/x/net/html"

	"verif/harness/internal/core"
	"verif/harness/internal/gen"
	"verif/harness/internal/oracle"
	"verif/harness/internal/spec"
)

// C02 — only allowlisted attributes with accepted values reach the output.

func init() { Registry["C02"] = runC02 }

// wellFormedData: the documented shape of a passable data attribute: "data-"
// + at least one character, no ASCII upper case, no ';', remainder not
// starting with "xml".
func wellFormedData(k string) bool {
	if !strings.HasPrefix(k, "data-") || len(k) <= 5 {
		return false
	}
	rest := k[5:]
	if strings.HasPrefix(rest, "xml") && len(rest) > 3 {
		return false
	}
	for i := 0; i < len(rest); i++ {
		if (rest[i] >= 'A' && rest[i] <= 'Z') || rest[i] == ';' {
			return false
		}
	}
	return true
}

var linkEls = map[string]bool{"a": true, "area": true, "link": true, "base": true}
var crossOriginEls = map[string]bool{"audio": true, "img": true, "link": true, "script": true, "video": true}
var forcedRel = map[string]bool{"nofollow": true, "noreferrer": true, "noopener": true}

func urlPosition(el, key string) bool {
	switch key {
	case "href":
		return el == "a" || el == "area" || el == "base" || el == "link"
	case "cite":
		return el == "blockquote" || el == "del" || el == "ins" || el == "q"
	case "src":
		switch el {
		case "audio", "embed", "iframe", "img", "input", "script", "source", "track", "video":
			return true
		}
	}
	return false
}

// inputValues: decoded values of attribute key on input start tags named el.
func inputValues(in []oracle.Tok, el, key string) []string {
	var out []string
	for _, t := range in {
		if (t.Type == html.StartTagToken || t.Type == html.SelfClosingTagToken) && t.Name == el {
			for _, a := range t.Attrs {
				if a.Key == key {
					out = append(out, a.Val)
				}
			}
		}
	}
	return out
}

// justified decides whether attribute (k,v) on output element el is covered by
// a clause of the property. Returns "" or the reason it is not.
func c02Justified(ob *Obs, el, k, v string) string {
	sp := ob.Env.Spec
	rules := sp.RulesLenient(el, k)
	// (b) data attributes
	if sp.DataAttrs && wellFormedData(k) {
		return ""
	}
	// (c) style governed by style rules: C10 judges the value
	if k == "style" && sp.HasStyleRules(el) {
		return ""
	}
	// (d) forced / managed attributes
	switch {
	case k == "rel" && linkEls[el] && sp.AnyLinkOption():
		toks := oracle.RelTokens(v)
		allForced := len(toks) > 0
		for _, t := range toks {
			if !forcedRel[t] {
				allForced = false
			}
		}
		if allForced {
			return ""
		}
		for _, iv := range inputValues(ob.InT, el, "rel") {
			if !spec.Accepts(rules, iv) {
				continue
			}
			if v == iv {
				return ""
			}
			if strings.HasPrefix(v, iv) {
				rest := oracle.RelTokens(v[len(iv):])
				ok := true
				for _, t := range rest {
					if !forcedRel[t] {
						ok = false
					}
				}
				if ok {
					return ""
				}
			}
		}
		return "rel value is neither an accepted input rel value plus required tokens nor made of required tokens only"
	case k == "target" && el == "a" && sp.TargetBlank && v == "_blank":
		return ""
	case k == "crossorigin" && crossOriginEls[el] && sp.CrossOrigin && v == "anonymous":
		return ""
	case k == "sandbox" && el == "iframe" && sp.Sandbox != nil:
		for _, t := range strings.Fields(v) {
			if !sp.Sandbox[t] {
				return "sandbox token " + t + " is not in the policy's list"
			}
		}
		// the attribute itself is forced; its (filtered) value needs no rule
		return ""
	}
	// (a) rules
	if sp.URLCheck && urlPosition(el, k) {
		// the sanitiser re-serialises URL values: judge the decoded input value
		for _, iv := range inputValues(ob.InT, el, k) {
			if spec.Accepts(rules, iv) {
				return ""
			}
		}
		if len(rules) == 0 {
			return "no rule allows this attribute on this element"
		}
		return "no input value of this attribute on this element is accepted by a rule"
	}
	if spec.Accepts(rules, v) {
		return ""
	}
	if len(rules) == 0 {
		return "no rule allows this attribute on this element"
	}
	return "value accepted by none of the rules registered for this attribute"
}

func attrClass(k string) string {
	switch {
	case strings.HasPrefix(k, "data-"):
		return "data-attr"
	case strings.HasPrefix(k, "on"):
		return "event-handler"
	case k == "style" || k == "href" || k == "src" || k == "cite" || k == "rel" || k == "target" || k == "crossorigin" || k == "sandbox":
		return k
	case strings.ContainsAny(k, "\"'<=`"):
		return "odd-name"
	}
	return "plain"
}

func c02Judge(cs *core.Case, ob *Obs, lc core.LocalCounts) {
	sp := ob.Env.Spec
	type akv struct{ el, k, v string }
	tokAttrs := map[akv]bool{}
	nattr := 0
	for _, t := range ob.OutT {
		if t.Type != html.StartTagToken && t.Type != html.SelfClosingTagToken {
			continue
		}
		if !sp.ElementAllowed(t.Name) {
			continue // C01's finding, not ours
		}
		lc["output_start_tags_judged"]++
		if len(t.Attrs) == 0 {
			lc["bare_tags_judged"]++
			if !sp.BareAllowed(t.Name) {
				w := ob.Witness()
				w["element"] = t.Name
				cs.Violate("C02:bare:"+nameCategory(t.Name), fmt.Sprintf("<%s> is emitted without attributes although the policy permits it only with attributes; input=%q output=%q", t.Name, core.Clip(ob.In, 300), core.Clip(ob.Out, 300)), w)
			}
			continue
		}
		for _, a := range t.Attrs {
			nattr++
			lc["output_attributes_judged"]++
			tokAttrs[akv{t.Name, oracle.ASCIILower(a.Key), a.Val}] = true
			if why := c02Justified(ob, t.Name, a.Key, a.Val); why != "" {
				w := ob.Witness()
				w["element"], w["attribute"], w["value"], w["why"] = t.Name, a.Key, core.Show(a.Val), why
				scope := "pattern-el"
				if sp.Explicit(t.Name) {
					scope = "explicit-el"
				}
				cs.Violate(fmt.Sprintf("C02:attr:%s:%s", attrClass(a.Key), scope), fmt.Sprintf("attribute %s=%q on <%s> in the output is not justified: %s; input=%q output=%q", a.Key, a.Val, t.Name, why, core.Clip(ob.In, 300), core.Clip(ob.Out, 300)), w)
			}
		}
	}
	// O-dom: the tree builder must not find attributes the token stream did not carry
	if nattr > 0 || strings.Contains(ob.Out, "=") {
		for _, c := range oracle.Contexts {
			nodes, err := oracle.ParseIn(ob.Out, c)
			if err != nil {
				continue
			}
			lc["dom_parses"]++
			for _, n := range nodes {
				if n.Type != html.ElementNode {
					continue
				}
				for _, a := range n.Attrs {
					lc["dom_attributes_judged"]++
					key := a.Key
					name := n.Name
					if tokAttrs[akv{name, key, a.Val}] {
						continue
					}
					if name == "img" && tokAttrs[akv{"image", key, a.Val}] {
						continue
					}
					// namespace prefixes: DOM "xlink:href" <-> token "xlink:href"; DOM may also drop the prefix
					found := false
					for t := range tokAttrs {
						if t.v == a.Val && (strings.HasSuffix(t.k, ":"+key) || strings.HasSuffix(key, ":"+t.k) || strings.EqualFold(t.k, key)) && strings.EqualFold(t.el, name) {
							found = true
							break
						}
					}
					if found {
						continue
					}
					w := ob.Witness()
					w["context"], w["element"], w["attribute"], w["value"] = c, name, key, core.Show(a.Val)
					cs.Violate("C02:dom-attr-not-in-token-stream:"+attrClass(key), fmt.Sprintf("parsing the output inside <%s> yields attribute %s=%q on <%s> that no tag of the output token stream carries; output=%q", c, key, a.Val, name, core.Clip(ob.Out, 300)), w)
				}
			}
		}
	}
	if nattr > 0 {
		cs.Nontrivial(core.Hash(strings.Join(spec.Describe(ob.Env.Ops), ";"), ob.In))
		if cs.Ctx.WantSample("doc") && len(ob.In) < 300 {
			cs.Sample("doc", map[string]interface{}{"policy": spec.Describe(ob.Env.Ops), "input": core.Show(ob.In), "output": core.Show(ob.Out)})
		}
	}
}

func runC02(ctx *core.Ctx) {
	ctx.Rule = "random builder-call histories x hostile documents (as C01) plus single-tag inputs enumerating element kind x attribute syntax; every attribute of every output start/self-closing tag must be justified by a clause of the property against the shadow rule set (union of element, matching-pattern and global rules), bare tags must be allowed bare, DOM attributes must come from the token stream; non-trivial = output carries at least one attribute, distinct by (policy, input)"
	ctx.Assume("one-directional: an attribute that is stripped is never an alarm here (C07)", "rewritten attributes (URL positions, rel) are justified existentially over the input tags of the same element", "style under style rules is judged by C10")
	single := func(cs *core.Case, env *Env, i int) (string, bool) {
		if i%3 != 0 {
			return "", false
		}
		// single start tag: exact alignment between input and output
		els := env.ElementCandidates()
		el := els[cs.R.Intn(len(els))]
		nd := &gen.Node{Name: el, Attrs: env.Attrs(cs.R, el), NoEnd: true}
		return gen.Serialize(cs.R, []*gen.Node{nd}, 1+cs.R.Intn(3)), true
	}
	docWorkload(ctx, spec.GenOpts{Styles: true}, ctx.N(3000, 50000), ctx.N(200, 400), ctx.N(3, 4), []string{"ugc", "pattern-everything", "foreign"}, single, c02Judge)
	// managed attributes without their options: rel, target, crossorigin and sandbox are ordinary attributes
	// while no link option, RequireCrossOriginAnonymous or RequireSandboxOnIFrame is set; whatever the output
	// carries must come from a rule. Values from HTML's own keyword tables.
	ctx.Run("managed-attributes-without-options", ctx.N(600, 6000), func(cs *core.Case) {
		r := cs.R
		els := []string{"a", "area", "link", "img", "audio", "video", "iframe", "source", "base", "p"}
		pool := []string{"href", "src", "target", "rel", "crossorigin", "sandbox", "x", "type", "download"}
		var allowed []string
		for _, k := range pool {
			if r.Intn(2) == 0 {
				allowed = append(allowed, k)
			}
		}
		ops := []spec.Op{{K: spec.KNew}, {K: spec.KAllowElements, Names: els}}
		if len(allowed) > 0 {
			switch r.Intn(3) {
			case 0:
				ops = append(ops, spec.Op{K: spec.KAllowAttrs, Attrs: allowed, Scope: "els", Names: els})
			case 1:
				ops = append(ops, spec.Op{K: spec.KAllowAttrs, Attrs: allowed, Scope: "global"})
			default:
				ops = append(ops, spec.Op{K: spec.KAllowAttrs, Attrs: allowed, Scope: "match", ElRe: `^[a-z]+$`})
			}
		}
		switch r.Intn(3) {
		case 0:
			ops = append(ops, spec.Op{K: spec.KSwitch, Names: []string{spec.SwParseable}, B: true}, spec.Op{K: spec.KSchemes, Names: []string{"http", "https", "mailto"}}, spec.Op{K: spec.KSwitch, Names: []string{spec.SwRelative}, B: r.Intn(2) == 0})
		case 1:
			ops = append(ops, spec.Op{K: spec.KSwitch, Names: []string{spec.SwAddSpaces}, B: true})
		}
		env := NewEnv(ops)
		lc := core.LocalCounts{}
		for i := 0; i < 120; i++ {
			el := els[r.Intn(len(els))]
			nd := &gen.Node{Name: el, NoEnd: true}
			for _, k := range pool {
				if r.Intn(2) == 0 {
					continue
				}
				v, _ := gen.WellKnownAttrValue(r, k)
				switch k {
				case "href", "src":
					v = gen.Pick(r, []string{"http://example.org/", "https://example.org/a?b=c", "/rel", "mailto:a@example.org", "//cdn.example.net/x", "#f"})
				case "x":
					v = "y"
				}
				nd.Attrs = append(nd.Attrs, [2]string{k, v})
			}
			r.Shuffle(len(nd.Attrs), func(i, j int) { nd.Attrs[i], nd.Attrs[j] = nd.Attrs[j], nd.Attrs[i] })
			ob := observe(env, gen.Serialize(r, []*gen.Node{nd}, 0), i)
			cs.Eval()
			lc["managed_attribute_tags_without_options"]++
			c02Judge(cs, ob, lc)
		}
		cs.Flush(lc)
	})
	// one attribute name, another value pattern per element (or per scope): the same value, short and
	// long, on all of them in one document, in every order - a verdict belongs to (element, attribute, value)
	ctx.Run("same-attribute-different-patterns", ctx.N(300, 3000), func(cs *core.Case) {
		r := cs.R
		k := gen.Pick(r, []string{"title", "id", "lang", "width", "x"})
		els := []string{"p", "div", "span", "b", "my-x"}
		r.Shuffle(len(els), func(i, j int) { els[i], els[j] = els[j], els[i] })
		ops := []spec.Op{{K: spec.KNew}}
		pats := r.Perm(6)
		for i, el := range els[:4] {
			op := spec.Op{K: spec.KAllowAttrs, Attrs: []string{k}, Re: gen.ValLib[pats[i]].Re, Scope: "els", Names: []string{el}}
			if el == "my-x" {
				op.Scope, op.ElRe, op.Names = "match", `^my-`, nil
			}
			ops = append(ops, op)
		}
		if r.Intn(3) == 0 {
			ops = append(ops, spec.Op{K: spec.KAllowAttrs, Attrs: []string{k}, Re: gen.ValLib[pats[4]].Re, Scope: "global"}, spec.Op{K: spec.KAllowElements, Names: []string{els[4]}})
		}
		env := NewEnv(ops)
		lc := core.LocalCounts{}
		for i := 0; i < 40; i++ {
			good := gen.ValLib[pats[r.Intn(4)]].Good
			v := good[r.Intn(len(good))]
			if v != "" && r.Intn(2) == 0 {
				v = strings.Repeat(v, 130/len(v)+1+r.Intn(3)) // repeated: still accepted by the patterns that are closed under repetition (digits, letters), refused by the others
			}
			order := r.Perm(len(els))
			var nodes []*gen.Node
			for _, oi := range order {
				nodes = append(nodes, &gen.Node{Name: els[oi], Attrs: [][2]string{{k, v}}, Kids: []*gen.Node{{Text: "t"}}})
			}
			ob := observe(env, gen.Serialize(r, nodes, 0), i)
			cs.Eval()
			lc["same_attribute_documents"]++
			c02Judge(cs, ob, lc)
		}
		cs.Flush(lc)
	})
	ctx.Floor("same_attribute_documents", 10000)
	ctx.Floor("managed_attribute_tags_without_options", 50000)
	ctx.MinNontrivial(int64(ctx.N(5000, 100000)))
	ctx.Floor("output_attributes_judged", 20000)
	ctx.Floor("bare_tags_judged", 5000)
	ctx.Floor("dom_attributes_judged", 20000)
}
