package mon

import (
	"fmt"
	"regexp"
	"strings"

	"golang.org/x/net/html"

	"verif/harness/internal/core"
	"verif/harness/internal/gen"
	"verif/harness/internal/oracle"
	"verif/harness/internal/spec"
)

// C10 — inline style is filtered declaration by declaration against the CSS allowlist.

func init() { Registry["C10"] = runC10 }

var cleanStyleRe = regexp.MustCompile(`^[a-z-]+: [^;:\\/*!{}"'<>&\x00-\x1f]*[^;:\\/*!{}"'<>&\x00-\x20](; [a-z-]+: [^;:\\/*!{}"'<>&\x00-\x1f]*[^;:\\/*!{}"'<>&\x00-\x20])*$`)

type cleanDecl struct{ prop, val string }

var cleanPieceRe = regexp.MustCompile(`^[a-z-]+:[ \t\n\r\f]*[^;:\\/*!{}"'<>&\x00-\x1f]*[^;:\\/*!{}"'<>&\x00-\x20]$`)

// splitClean reads a cleanly parseable declaration list: `prop: value` items with plain values,
// separated by semi-colons, with any CSS white space (space, tab, LF, CR, FF) around the separators,
// before the first and after the last item, an optional final semi-colon, and possibly empty
// declarations (`;;`). Returns nil if s is not of that form. layout names what is unusual about
// the formatting ("plain" for the canonical `a: b; c: d`).
func splitClean(s string) (out []cleanDecl, layout string) {
	layout = "plain"
	const ws = " \t\n\r\f"
	if strings.TrimRight(s, ws+";") != s {
		layout = "trailing-whitespace-or-semicolon"
	}
	if strings.TrimLeft(s, ws) != s {
		layout = "leading-whitespace"
	}
	pieces := strings.Split(s, ";")
	for i, d := range pieces {
		t := strings.Trim(d, ws)
		if t == "" {
			if i != len(pieces)-1 {
				layout = "empty-declaration"
			}
			continue
		}
		if t != strings.TrimPrefix(d, " ") && layout == "plain" {
			layout = "whitespace-around-separator"
		}
		// an escaped backslash (two backslashes) is a complete escape and as plain as a letter
		if !cleanPieceRe.MatchString(strings.ReplaceAll(t, `\\`, "zz")) {
			return nil, ""
		}
		if strings.Contains(t, `\\`) && layout == "plain" {
			layout = "escaped-backslash"
		}
		k := strings.Index(t, ":")
		out = append(out, cleanDecl{t[:k], strings.TrimLeft(t[k+1:], ws)})
	}
	if len(out) == 0 {
		return nil, ""
	}
	return out, layout
}

// bracketsBalanced: (), [] properly nested (a cleanly parseable style leaves no block open).
func bracketsBalanced(s string) bool {
	var st []byte
	for i := 0; i < len(s); i++ {
		switch c := s[i]; c {
		case '(':
			st = append(st, ')')
		case '[':
			st = append(st, ']')
		case ')', ']':
			if len(st) == 0 || st[len(st)-1] != c {
				return false
			}
			st = st[:len(st)-1]
		case ';':
			if len(st) != 0 {
				return false
			}
		}
	}
	return len(st) == 0
}

func bareProp(p string) string {
	for _, pre := range oracle.VendorPrefixes {
		p = strings.TrimPrefix(p, pre)
	}
	return p
}

func anyStyleAccepts(rules []spec.StyleRule, v string) bool {
	for _, r := range rules {
		if spec.StyleAccepts(r, v) {
			return true
		}
	}
	return false
}

// escapeClass names how the browser's reading of a raw value differs from the raw text.
func escapeClass(raw string) string {
	if !strings.Contains(raw, `\`) {
		return "no-escape"
	}
	cls := "hex-escape"
	for i := 0; i < len(raw); i++ {
		if raw[i] != '\\' {
			continue
		}
		j := i + 1
		if j >= len(raw) {
			return "trailing-backslash"
		}
		if !isHexB(raw[j]) {
			if raw[j] == '\n' || raw[j] == '\r' || raw[j] == '\f' {
				return "escaped-newline"
			}
			return "non-hex-escape"
		}
		v, n := 0, 0
		for j < len(raw) && n < 6 && isHexB(raw[j]) {
			v = v*16 + hexv(raw[j])
			j++
			n++
		}
		switch {
		case v > 0xFFFF:
			return "astral-or-out-of-range-escape"
		case v == 0 || (v >= 0xD800 && v <= 0xDFFF):
			return "zero-or-surrogate-escape"
		case v == ' ' || v == '\t' || v == '\n' || v == '\r' || v == '\f':
			return "escape-decodes-to-whitespace"
		}
		if j < len(raw) && (raw[j] == '\t' || raw[j] == '\n' || raw[j] == '\r' || raw[j] == '\f') {
			cls = "non-space-escape-terminator"
		}
	}
	return cls
}

func isHexB(c byte) bool { return c >= '0' && c <= '9' || c >= 'a' && c <= 'f' || c >= 'A' && c <= 'F' }
func hexv(c byte) int {
	switch {
	case c <= '9':
		return int(c - '0')
	case c >= 'a':
		return int(c-'a') + 10
	}
	return int(c-'A') + 10
}

func c10Judge(cs *core.Case, ob *Obs, lc core.LocalCounts) {
	sp := ob.Env.Spec
	judgedAny := false
	for _, t := range ob.OutT {
		if t.Type != html.StartTagToken && t.Type != html.SelfClosingTagToken {
			continue
		}
		if !sp.HasStyleRules(t.Name) {
			continue
		}
		for _, a := range t.Attrs {
			if a.Key != "style" {
				continue
			}
			judgedAny = true
			lc["output_style_attributes_judged"]++
			viol := func(sig, msg string, extra map[string]interface{}) {
				w := ob.Witness()
				w["element"], w["style"] = t.Name, core.Show(a.Val)
				for k, v := range extra {
					w[k] = v
				}
				cs.Violate("C10:"+sig, msg+fmt.Sprintf("; style=%q input=%q", a.Val, core.Clip(ob.In, 300)), w)
			}
			if strings.TrimSpace(a.Val) == "" {
				viol("empty-style-survived", fmt.Sprintf("<%s> keeps an empty style attribute", t.Name), nil)
				continue
			}
			decls := oracle.ParseDeclarations(a.Val)
			real := 0
			for _, d := range decls {
				if d.Malformed {
					lc["malformed_pieces_a_browser_drops"]++
					continue
				}
				real++
				lc["output_declarations_judged"]++
				rules := sp.StyleRulesLenient(t.Name, d.BareProperty)
				if d.BareProperty != d.Property {
					rules = append(rules, sp.StyleRulesLenient(t.Name, d.Property)...)
				}
				if len(rules) == 0 {
					viol("property-not-allowlisted", fmt.Sprintf("declaration %q: property %q is not allowlisted for <%s> or globally", d.RawProperty+": "+d.RawValue, d.Property, t.Name), map[string]interface{}{"property": d.Property})
					continue
				}
				if !anyStyleAccepts(rules, d.DecodedValue) {
					cls := escapeClass(d.RawValue)
					if strings.Contains(d.RawValue, ";") {
						// the browser swallows a ';' (unclosed block, string or escape) that the
						// sanitiser took for a declaration boundary
						cls = "declaration-boundary-divergence"
					}
					if d.RawProperty != d.Property && strings.Contains(d.RawProperty, `\`) {
						cls = "escaped-property-name"
					}
					viol("value-not-accepted:"+cls, fmt.Sprintf("declaration %q: a browser reads the value as %q, which no matcher registered for %q accepts", d.RawProperty+": "+d.RawValue, d.DecodedValue, d.BareProperty),
						map[string]interface{}{"property": d.Property, "raw_value": core.Show(d.RawValue), "browser_value": core.Show(d.DecodedValue)})
				}
			}
			if real == 0 {
				lc["style_attributes_without_declaration"]++
			}
		}
	}
	// clean inputs: allowed declarations kept in order, nothing else
	for _, it := range ob.InT {
		if it.Type != html.StartTagToken && it.Type != html.SelfClosingTagToken || !sp.HasStyleRules(it.Name) || !sp.ElementAllowed(it.Name) {
			continue
		}
		if len(ob.InT) != 1 {
			break // exact alignment only for single-tag inputs
		}
		var sv string
		n := 0
		for _, a := range it.Attrs {
			if a.Key == "style" {
				sv = a.Val
				n++
			}
		}
		if n != 1 || !bracketsBalanced(sv) {
			continue // not a cleanly parseable style
		}
		inDecls, layout := splitClean(sv)
		if inDecls == nil {
			continue
		}
		lc["clean_style_inputs_judged"]++
		lc["clean_style_layout:"+layout]++
		judgedAny = true
		var must []string
		for _, d := range inDecls {
			if anyStyleAccepts(sp.StyleRulesStrict(it.Name, bareProp(d.prop)), oracle.DecodeCSSEscapes(strings.ToLower(d.val))) {
				must = append(must, d.prop+": "+d.val)
			}
		}
		got := ""
		for _, t := range ob.OutT {
			if t.Name == it.Name && (t.Type == html.StartTagToken || t.Type == html.SelfClosingTagToken) {
				for _, a := range t.Attrs {
					if a.Key == "style" {
						got = a.Val
					}
				}
			}
		}
		var gotDecls []string
		if got != "" {
			gotDecls = strings.Split(got, "; ")
		}
		// must ⊆ got (in order) ⊆ input (in order)
		sub := func(a, b []string) bool {
			i := 0
			for _, x := range b {
				if i < len(a) && a[i] == x {
					i++
				}
			}
			return i == len(a)
		}
		var inStr []string
		for _, d := range inDecls {
			inStr = append(inStr, d.prop+": "+d.val)
		}
		// an element dropped entirely (no surviving attribute and not allowed bare) loses its style with it
		dropped := len(ob.OutT) == 0 || !ob.OutT[0].IsTag()
		if !sub(must, gotDecls) && !(dropped && !sp.BareAllowed(it.Name) && len(must) == 0) {
			if !dropped || len(must) > 0 {
				w := ob.Witness()
				w["expected_declarations"], w["got_style"] = must, got
				cs.Violate("C10:clean-style:allowed-declaration-lost:"+layout, fmt.Sprintf("clean style %q on <%s>: declarations %q are allowed and must be kept in order, output style is %q", sv, it.Name, must, got), w)
			}
		}
		if !sub(gotDecls, inStr) {
			w := ob.Witness()
			w["got_style"] = got
			cs.Violate("C10:clean-style:not-a-subsequence:"+layout, fmt.Sprintf("clean style %q on <%s>: output style %q is not the input's declarations in order joined by '; '", sv, it.Name, got), w)
		}
	}
	if judgedAny {
		cs.Nontrivial(core.Hash(strings.Join(spec.Describe(ob.Env.Ops), ";"), ob.In))
		if cs.Ctx.WantSample("style") && len(ob.In) < 250 {
			cs.Sample("style", map[string]interface{}{"policy": spec.Describe(ob.Env.Ops), "input": core.Show(ob.In), "output": core.Show(ob.Out)})
		}
	}
}

func c10Policy(cs *core.Case) []spec.Op {
	r := cs.R
	ops := spec.RandomOps(r, spec.GenOpts{Styles: true, MaxRules: 6})
	pool := []string{"span", "div", "p", "b", "my-x", "x-foo", "td", "img", "a"}
	pats := spec.ElPatterns
	for i := 0; i < 2+r.Intn(4); i++ {
		ops = append(ops, spec.RandomStyleOp(r, pool, pats, spec.GenOpts{}))
	}
	ops = append(ops, spec.Op{K: spec.KAllowElements, Names: pool})
	ops = append(ops, spec.Op{K: spec.KAllowNoAttrs, Scope: "els", Names: []string{"a", "img", "my-x", "x-foo"}})
	if r.Intn(3) == 0 { // style also allowed as a plain attribute: exercises the routing switch
		ops = append(ops, spec.Op{K: spec.KAllowAttrs, Attrs: []string{"style"}, Scope: gen.Pick(r, []string{"global", "els"}), Names: pool})
	}
	return ops
}

func runC10(ctx *core.Ctx) {
	ctx.Rule = "policies with style rules in global / element / element-pattern scope and all four matcher kinds (handler, enum, regexp, default), style optionally also allowed as a plain attribute x style attributes from the hostile CSS generator (allowed/disallowed/unknown properties, vendor prefixes, case, hex escapes with every terminator, non-hex escapes, astral escapes, !important, comments, strings and url() containing ; : }, malformed tails) and clean `prop: value; ...` lists; oracle: an independent CSS reader + browser-style escape decoder re-reads every output style attribute and judges each declaration against the shadow rule set; clean single-tag inputs must keep exactly the allowed declarations in order; non-trivial = a style attribute was judged, distinct by (policy, input)"
	ctx.Assume("browser CSS parsing approximated by CSS Syntax L3 (declaration list, escapes §4.3.7)", "matchers are judged on the lower-cased, escape-decoded value", "a property allowlisted together with a vendor prefix is not generated for the clean-input clause")
	in := func(cs *core.Case, env *Env, i int) (string, bool) {
		if i%4 == 3 {
			return "", false
		}
		r := cs.R
		els := []string{"span", "div", "p", "b", "my-x", "x-foo", "td", "img", "a", "h1", "em"}
		el := els[r.Intn(len(els))]
		style := gen.StyleAttr(r, env.StyleKnown(el), i%2 == 0)
		nd := &gen.Node{Name: el, Attrs: [][2]string{{"style", style}}, NoEnd: true}
		if r.Intn(5) == 0 {
			nd.Attrs = append(nd.Attrs, [2]string{"id", "x"})
		}
		return gen.Serialize(r, []*gen.Node{nd}, r.Intn(2)), true
	}
	nPol, nIn := ctx.N(5000, 80000), ctx.N(200, 500)
	ctx.Run("style-policies", nPol, func(cs *core.Case) {
		env := NewEnv(c10Policy(cs))
		lc := core.LocalCounts{}
		for i := 0; i < nIn; i++ {
			s, ok := in(cs, env, i)
			if !ok {
				s = env.HostileInput(cs.R)
			}
			ob := observe(env, s, i)
			cs.Eval()
			c10Judge(cs, ob, lc)
		}
		cs.Flush(lc)
	})
	// declaration boundaries: a permissive matcher ("tiny": any value of <= 6 bytes) accepts a value
	// that leaves a block, string, comment or escape open; whatever is emitted must still read, for a
	// browser, as declarations whose values a matcher accepts
	openers := []string{"(a]", "[a)", "{a)", "(a}", "([)]", "{", "(", "[", "\"x", "'x", "x /*", "x\\", "x\\;", "url(", "x(", "}", ")", "]", "x!y", "x !z", "/*", "\\", "\"", "'", "x\\\n", "([", "{(", "a\\9", "<!--", "-->", "x\"", "\\;"}
	ctx.Run("declaration-boundaries", len(openers)*4, func(cs *core.Case) {
		op := openers[cs.Index%len(openers)]
		variant := cs.Index / len(openers)
		ops := []spec.Op{{K: spec.KNew}, {K: spec.KAllowElements, Names: []string{"span"}},
			{K: spec.KAllowStyles, Attrs: []string{"margin", "padding"}, Matcher: "handler", Handler: "tiny", Scope: []string{"global", "els", "match", "global"}[variant], Names: []string{"span"}, ElRe: `^sp`},
			{K: spec.KAllowStyles, Attrs: []string{"color"}, Matcher: "re", Re: `^(red|blue)$`, Scope: "global"}}
		env := NewEnv(ops)
		lc := core.LocalCounts{}
		for _, tail := range []string{"; color: red; width: evil", "; color: red", ";color:red;margin:1px", "", ";", "; padding: " + op + "; color: blue"} {
			for _, head := range []string{"", "color: blue; "} {
				in := `<span style="` + gen.CanonEscape(head+"margin: "+op+tail) + `">x</span>`
				ob := observe(env, in, 0)
				cs.Eval()
				lc["boundary_probes"]++
				c10Judge(cs, ob, lc)
				if s2 := env.Pol.Sanitize(ob.Out); s2 != ob.Out {
					w := ob.Witness()
					w["second_pass"] = core.Show(s2)
					cs.Violate("C10:boundary:reparse-differs", fmt.Sprintf("the emitted style does not survive a second parse unchanged: first=%q second=%q input=%q", ob.Out, s2, in), w)
				}
			}
		}
		cs.Flush(lc)
	})
	// a property that is not documented has no default handler: allowlisting it without a matcher keeps
	// nothing, however close its name is to a documented one and whatever value it carries
	ctx.Run("undocumented-properties", len(gen.CSSProperties), func(cs *core.Case) {
		p := gen.CSSProperties[cs.Index]
		known := map[string]bool{}
		for _, q := range gen.CSSProperties {
			known[q] = true
		}
		vals := append([]string{"red", "10px", "none", "1", "inherit"}, gen.WellKnownCSS[p]...)
		if len(vals) > 9 {
			vals = vals[:9]
		}
		lc := core.LocalCounts{}
		var names []string
		for _, sf := range []string{"-start", "-end", "-inline", "-block", "-inline-start", "-block-end", "-top", "-left", "-x", "-y", "-color", "-width", "-style", "x", "-"} {
			names = append(names, p+sf)
		}
		for _, pf := range []string{"x", "x-", "scrollbar-", "inner-", "--", "--x-"} {
			names = append(names, pf+p)
		}
		if cs.Index == 0 {
			names = append(names, "--accent", "--x", "--", "---")
		}
		for _, name := range names {
			if known[name] || known[strings.TrimLeft(name, "-")] {
				continue
			}
			env := NewEnv([]spec.Op{{K: spec.KNew}, {K: spec.KAllowElements, Names: []string{"span"}}, {K: spec.KAllowStyles, Attrs: []string{name}, Matcher: "default", Scope: []string{"global", "els", "match"}[cs.Index%3], Names: []string{"span"}, ElRe: `^sp`}})
			for _, v := range vals {
				in := `<span style="` + gen.CanonEscape(name+": "+v) + `">x</span>`
				out := env.Pol.Sanitize(in)
				cs.Eval()
				lc["undocumented_property_probes"]++
				if strings.Contains(out, "style") {
					cs.Violate("C10:undocumented-property-kept", fmt.Sprintf("%q is not a documented property and was allowlisted without a matcher, yet its declaration is kept: input=%q output=%q", name, in, out),
						map[string]interface{}{"policy": spec.Describe(env.Ops), "ops": env.Ops, "input": core.Show(in), "output": core.Show(out)})
				}
			}
		}
		cs.Nontrivial(core.Hash("undoc", p))
		cs.Flush(lc)
	})
	ctx.Floor("undocumented_property_probes", 10000)
	ctx.Floor("boundary_probes", 1000)
	ctx.MinNontrivial(int64(ctx.N(20000, 300000)))
	ctx.Floor("output_declarations_judged", 20000)
	ctx.Floor("clean_style_inputs_judged", 5000)
}
