package mon

import (
	"fmt"
	"regexp"
	"sort"
	"strings"

	"github.com/microcosm-cc/bluemonday"
	"github.com/microcosm-cc/bluemonday/css"
	"golang.org/x/net/html"

	"verif/harness/internal/core"
	"verif/harness/internal/gen"
	"verif/harness/internal/oracle"
	"verif/harness/internal/spec"
)

// C04 — shipped policies are safe: Strict strips all markup, UGC emits inert vocabulary.

func init() { Registry["C04"] = runC04 }

// ugcVocab is the independent table of the documented UGC vocabulary.
type ugcVocab struct {
	els    map[string]map[string]bool // element -> attribute names
	global map[string]bool
}

func newUGCVocab() *ugcVocab {
	sp := spec.FromOps(spec.UGCOps())
	v := &ugcVocab{els: map[string]map[string]bool{}, global: map[string]bool{}}
	for el, m := range sp.Els {
		v.els[el] = map[string]bool{}
		for k := range m {
			v.els[el][k] = true
		}
	}
	for k := range sp.Global {
		v.global[k] = true
	}
	return v
}

var ugcForbiddenEls = map[string]bool{"script": true, "style": true, "iframe": true, "object": true, "embed": true, "form": true, "input": true, "button": true, "select": true, "textarea": true,
	"option": true, "base": true, "meta": true, "link": true, "svg": true, "math": true, "frame": true, "frameset": true, "applet": true, "audio": true, "video": true, "source": true, "template": true}

func (v *ugcVocab) judgeTag(name string, attrs []html.Attribute, where string, report func(sig, msg string)) {
	allowed, ok := v.els[name]
	if !ok {
		cat := "outside-vocabulary"
		if ugcForbiddenEls[name] {
			cat = "forbidden:" + name
		}
		report("element:"+cat, fmt.Sprintf("%s: element <%s> is not in the documented UGC vocabulary", where, name))
		return
	}
	for _, a := range attrs {
		k := a.Key
		switch {
		case strings.HasPrefix(k, "on"):
			report("attr:event-handler", fmt.Sprintf("%s: <%s> carries event handler attribute %s", where, name, k))
			continue
		case k == "style":
			report("attr:style", fmt.Sprintf("%s: <%s> carries a style attribute", where, name))
			continue
		}
		if !(allowed[k] || v.global[k] || (k == "rel" && (name == "a" || name == "area"))) {
			report("attr:outside-vocabulary", fmt.Sprintf("%s: attribute %s on <%s> is not in the documented UGC vocabulary", where, k, name))
			continue
		}
		if k == "href" || k == "src" || (k == "cite" && (name == "blockquote" || name == "q")) {
			c := oracle.ClassifyURL(a.Val)
			switch c.Scheme {
			case "", "http", "https", "mailto":
			default:
				report("url:scheme:"+schemeClass(c.Scheme), fmt.Sprintf("%s: %s=%q on <%s> resolves to scheme %q", where, k, a.Val, name, c.Scheme))
			}
			if c.HasWS || c.HasControl {
				report("url:whitespace-or-control", fmt.Sprintf("%s: %s=%q on <%s> contains whitespace or a control character", where, k, a.Val, name))
			}
		}
	}
}

func runC04(ctx *core.Ctx) {
	ctx.Rule = "hostile generator + corpus mutants + verbatim historical vectors + every string of L lexical pieces against StrictPolicy() and UGCPolicy(); Strict outputs must re-tokenise and re-parse (8 contexts) to text only; UGC outputs are judged token by token and DOM node by DOM node (8 contexts) against a hand-transcribed table of the documented UGC vocabulary (elements, attribute names per element, http/https/mailto/relative URLs, no event-handler/style attribute); UGCPolicy() must agree with the transcription built from primitive builder calls; conforming UGC documents must round-trip up to the predicted rel=nofollow; non-trivial = input contains '<' and output is non-empty, distinct by (policy, input)"
	ctx.Assume("the vocabulary table is transcribed from the comments of policies.go/helpers.go, not generated from the policy", "elements implied by the tree builder (html head body tbody tr colgroup) are not judged")
	// a neighbour in the same process has already taken its own copies of the shipped policies and
	// opened them up completely; the copies this monitor asks for afterwards must be the shipped ones
	for _, mk := range []func() *bluemonday.Policy{bluemonday.StrictPolicy, bluemonday.StripTagsPolicy, bluemonday.UGCPolicy, bluemonday.NewPolicy} {
		p := mk()
		p.AllowElements("b", "i", "script", "style", "iframe", "object", "form", "input", "base", "meta", "link", "embed")
		p.AllowAttrs("onclick", "onerror", "style", "href", "src", "action", "id").Globally()
		p.AllowNoAttrs().OnElements("a", "img", "span", "font", "iframe")
		p.AllowURLSchemes("javascript", "data", "vbscript", "http")
		p.AllowRelativeURLs(true).RequireNoFollowOnLinks(false).AllowElementsContent("iframe", "object", "title", "noscript").AllowStyles("color", "behavior").Globally()
		p.AllowComments()
		p.AllowDataAttributes()
		p.AllowElementsMatching(regexp.MustCompile(`.`))
		p.Sanitize(`<b onclick="x" style="color: red">b</b><script>1</script><a href="javascript:1">x</a><!-- c -->`)
	}
	ctx.Extra("shipped_constructors_customised_by_a_neighbour_first", 4)
	vocab := newUGCVocab()
	ugcEnv := NewEnv([]spec.Op{{K: spec.KUGC}})
	strictEnv := NewEnv([]spec.Op{{K: spec.KStrict}})
	transcribed := spec.BuildCased(expandOps(spec.UGCOps()), nil)

	judgeStrict := func(cs *core.Case, in, out string, lc core.LocalCounts) {
		for _, t := range oracle.Tokens(out) {
			if t.Type != html.TextToken {
				cs.Violate("C04:strict:tok:"+tokKind(t.Type), fmt.Sprintf("StrictPolicy output contains a %s token %q; input=%q output=%q", tokKind(t.Type), t.Raw, core.Clip(in, 300), core.Clip(out, 300)), map[string]interface{}{"input": core.Show(in), "output": core.Show(out)})
			}
		}
		lc["strict_outputs_judged"]++
		if strings.Contains(out, "<") {
			for _, c := range oracle.Contexts {
				nodes, err := oracle.ParseIn(out, c)
				if err != nil {
					continue
				}
				for _, n := range nodes {
					if n.Type != html.TextNode {
						cs.Violate("C04:strict:dom", fmt.Sprintf("StrictPolicy output parsed inside <%s> yields a non-text node %q; output=%q", c, n.Data, core.Clip(out, 300)), map[string]interface{}{"input": core.Show(in), "output": core.Show(out)})
					}
				}
			}
		}
	}
	judgeUGC := func(cs *core.Case, in, out string, entry int, lc core.LocalCounts) {
		report := func(sig, msg string) {
			cs.Violate("C04:ugc:"+sig, msg+fmt.Sprintf("; input=%q output=%q", core.Clip(in, 300), core.Clip(out, 300)), map[string]interface{}{"input": core.Show(in), "output": core.Show(out)})
		}
		for _, t := range oracle.Tokens(out) {
			switch t.Type {
			case html.StartTagToken, html.SelfClosingTagToken:
				lc["ugc_tags_judged"]++
				vocab.judgeTag(t.Name, t.Attrs, "token stream", report)
			case html.EndTagToken:
				if _, ok := vocab.els[t.Name]; !ok {
					report("element:outside-vocabulary:endtag", fmt.Sprintf("end tag </%s> is not in the documented UGC vocabulary", t.Name))
				}
			case html.CommentToken, html.DoctypeToken:
				report("tok:"+tokKind(t.Type), "UGC output contains a "+tokKind(t.Type))
			}
		}
		if strings.Contains(out, "<") {
			for _, c := range oracle.Contexts {
				nodes, err := oracle.ParseIn(out, c)
				if err != nil {
					continue
				}
				lc["ugc_dom_parses"]++
				for _, n := range nodes {
					switch n.Type {
					case html.ElementNode:
						if oracle.Implied[n.Name] {
							continue
						}
						lc["ugc_dom_elements_judged"]++
						vocab.judgeTag(n.Name, n.Attrs, "DOM inside <"+c+">", report)
					case html.CommentNode, html.DoctypeNode:
						report("dom:comment-or-doctype", "UGC output parsed inside <"+c+"> yields a comment or doctype node")
					}
				}
			}
		}
		// the shipped constructor must agree with the transcription of its documentation
		if got := SanitizeVia(transcribed, in, entry); got != out {
			lc["transcription_disagreements"]++
			cs.Violate("C04:ugc:differs-from-documented-composition:"+firstDiffToken(out, got), fmt.Sprintf("UGCPolicy() and the policy assembled from its documented calls disagree: shipped=%q documented=%q input=%q", core.Clip(out, 300), core.Clip(got, 300), core.Clip(in, 300)), map[string]interface{}{"input": core.Show(in), "shipped": core.Show(out), "documented": core.Show(got)})
		}
	}

	nCase := ctx.N(1000, 25000)
	nIn := ctx.N(250, 500)
	ctx.Run("hostile", nCase, func(cs *core.Case) {
		lc := core.LocalCounts{}
		// fresh instances now and then: the property is about the constructors
		ugc, strict := ugcEnv.Pol, strictEnv.Pol
		if cs.Index%10 == 0 {
			ugc, strict = bluemonday.UGCPolicy(), bluemonday.StrictPolicy()
		}
		for i := 0; i < nIn; i++ {
			in := ugcEnv.HostileInput(cs.R)
			so := SanitizeVia(strict, in, i)
			uo := SanitizeVia(ugc, in, i)
			cs.EvalN(2)
			judgeStrict(cs, in, so, lc)
			judgeUGC(cs, in, uo, i, lc)
			if hasTagLike(in) && uo != "" {
				cs.Nontrivial(core.Hash("ugc", in))
				if cs.Ctx.WantSample("hostile") && len(in) < 250 {
					cs.Sample("hostile", map[string]interface{}{"input": core.Show(in), "ugc_output": core.Show(uo), "strict_output": core.Show(so)})
				}
			}
		}
		cs.Flush(lc)
	})
	piecesWorkload(ctx, ctx.N(4, 5), []string{"strict"}, func(cs *core.Case, ob *Obs, lc core.LocalCounts) {
		judgeStrict(cs, ob.In, ob.Out, lc)
		if hasTagLike(ob.In) && ob.Out != "" {
			cs.Nontrivial(core.Hash("strict", ob.In))
		}
	})
	piecesWorkload(ctx, ctx.N(4, 5), []string{"ugc"}, func(cs *core.Case, ob *Obs, lc core.LocalCounts) {
		judgeUGC(cs, ob.In, ob.Out, ob.Entry, lc)
		if hasTagLike(ob.In) && ob.Out != "" {
			cs.Nontrivial(core.Hash("ugc", ob.In))
		}
	})

	// outside-vocabulary enumeration: every element of a broad pool x every attribute of a broad
	// pool (incl. style with one accepted declaration per documented CSS property, event
	// handlers, srcset, form/media/meta attributes) as single-tag inputs: a policy that quietly
	// admits more than its documentation says is seen even without a hostile input
	var elPool []string
	elPool = append(elPool, allElementVocab...)
	for el := range vocab.els {
		elPool = append(elPool, el)
		// near-misses of the documented names: one character more or less at either end
		elPool = append(elPool, el+"x", "x"+el, el+"1", el+"-x", el+el)
		if len(el) > 1 {
			elPool = append(elPool, el[:len(el)-1], el[1:])
		}
	}
	sort.Strings(elPool)
	{
		seen := map[string]bool{}
		uniq := elPool[:0]
		for _, e := range elPool {
			if !seen[e] {
				seen[e] = true
				uniq = append(uniq, e)
			}
		}
		elPool = uniq
	}
	attrPool := append([]string{}, gen.AttrVocab...)
	attrPool = append(attrPool, "class", "style", "onclick", "onerror", "srcset", "name", "for", "form", "formaction", "method", "enctype", "autoplay", "controls", "loop", "muted", "preload",
		"data", "codebase", "archive", "http-equiv", "content", "charset", "media", "sizes", "referrerpolicy", "loading", "decoding", "ismap", "longdesc", "hreflang", "download", "ping", "accept", "pattern", "placeholder", "required", "checked", "disabled", "readonly", "multiple", "selected", "wrap", "rows", "cols", "maxlength", "bgcolor", "color", "face", "size", "border", "cellpadding", "cellspacing", "frame", "rules", "hspace", "vspace", "marginwidth", "allow", "allowfullscreen", "srcdoc", "xml:lang", "xml:base", "xlink:href", "is", "itemprop", "itemscope", "role", "aria-label", "hidden", "draggable", "spellcheck", "translate", "nonce", "part", "slot", "inputmode", "enterkeyhint", "popover")
	var styleDecls []string
	{
		pool := gen.CSSTokenPool()
		for _, prop := range gen.CSSProperties {
			h := css.GetDefaultHandler(prop)
			for _, t := range pool {
				if !strings.ContainsAny(t, "\"'<>&") && h(t) {
					styleDecls = append(styleDecls, prop+": "+t)
					break
				}
			}
		}
	}
	ctx.Extra("outside_vocabulary_elements", len(elPool))
	ctx.Extra("outside_vocabulary_attributes", len(attrPool))
	ctx.Extra("style_declarations_tried_per_element", len(styleDecls))
	ctx.Run("vocabulary-enumeration", len(elPool), func(cs *core.Case) {
		el := elPool[cs.Index]
		if strings.ContainsAny(el, "<\"=' /") || el == "plaintext" {
			return
		}
		lc := core.LocalCounts{}
		r := cs.R
		try := func(k, v string) {
			in := "<" + el + " " + k + `="` + gen.CanonEscape(v) + `">x</` + el + ">"
			out := ugcEnv.Pol.Sanitize(in)
			cs.Eval()
			lc["vocabulary_probes"]++
			judgeUGC(cs, in, out, 0, lc)
			if out != "x" {
				cs.Nontrivial(core.Hash("vocab", in))
			}
		}
		for _, k := range attrPool {
			if strings.ContainsAny(k, "\"'<>= ") || k == "" {
				continue
			}
			vals := []string{"x", "1", "http://example.org/", "left", ugcEnv.AttrValue(r, el, k)}
			for _, v := range vals {
				try(k, v)
			}
		}
		for _, d := range styleDecls {
			try("style", d)
		}
		cs.Flush(lc)
	})

	// converse: conforming documents pass unchanged apart from the predicted rel=nofollow
	ctx.Run("conforming", ctx.N(300, 3000), func(cs *core.Case) {
		lc := core.LocalCounts{}
		used := map[string]bool{}
		for i := 0; i < 150; i++ {
			doc, nAttr := ugcEnv.conformingDoc(cs.R, used)
			if strings.TrimSpace(doc) == "" {
				continue
			}
			out := ugcEnv.Pol.Sanitize(doc)
			cs.Eval()
			lc["conforming_documents"]++
			want := predictNofollow(doc)
			if out != want {
				cs.Violate("C04:ugc:conforming-document-changed:"+firstDiffToken(out, want), fmt.Sprintf("a document written in the UGC vocabulary changed beyond the added rel=nofollow: input=%q output=%q predicted=%q", core.Clip(doc, 300), core.Clip(out, 300), core.Clip(want, 300)), map[string]interface{}{"input": core.Show(doc), "output": core.Show(out), "predicted": core.Show(want)})
			}
			if nAttr > 0 {
				cs.Nontrivial(core.Hash("conf", doc))
				if cs.Ctx.WantSample("conforming") && len(doc) < 250 && out != doc {
					cs.Sample("conforming", map[string]interface{}{"conforming_document": core.Show(doc), "output": core.Show(out)})
				}
			}
		}
		cs.Flush(lc)
	})
	ctx.MinNontrivial(int64(ctx.N(50000, 500000)))
	ctx.Floor("ugc_tags_judged", 50000)
	ctx.Floor("ugc_dom_elements_judged", 50000)
	ctx.Floor("strict_outputs_judged", 50000)
	ctx.Floor("conforming_documents", 10000)
	ctx.Floor("vocabulary_probes", 50000)
	_ = gen.Pieces
}

// expandOps replaces helper ops by their documented primitive expansion.
func expandOps(ops []spec.Op) []spec.Op {
	var out []spec.Op
	for _, o := range ops {
		switch o.K {
		case spec.KStdURLs, spec.KStdAttrs, spec.KStyling, spec.KImages, spec.KLists, spec.KTables, spec.KDataURIImages, spec.KIFrames:
			out = append(out, expandOps(spec.ExpandHelper(o))...)
		default:
			out = append(out, o)
		}
	}
	return out
}

// predictNofollow applies the documented effect of RequireNoFollowOnLinks to a
// canonical document: every a/area start tag with an href gets the rel token.
func predictNofollow(doc string) string {
	var b strings.Builder
	for _, t := range oracle.Tokens(doc) {
		if (t.Type == html.StartTagToken || t.Type == html.SelfClosingTagToken) && (t.Name == "a" || t.Name == "area") {
			hasHref, relIdx := false, -1
			for i, a := range t.Attrs {
				if a.Key == "href" {
					hasHref = true
				}
				if a.Key == "rel" && relIdx < 0 {
					relIdx = i
				}
			}
			if hasHref {
				attrs := append([]html.Attribute{}, t.Attrs...)
				if relIdx >= 0 {
					if oracle.HasToken(oracle.RelTokens(attrs[relIdx].Val), "nofollow") == 0 {
						attrs[relIdx].Val += " nofollow"
					}
				} else {
					attrs = append(attrs, html.Attribute{Key: "rel", Val: "nofollow"})
				}
				tok := html.Token{Type: t.Type, Data: t.Name, Attr: attrs}
				b.WriteString(tok.String())
				continue
			}
		}
		b.WriteString(t.Raw)
	}
	return b.String()
}
