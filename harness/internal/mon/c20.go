package mon

import (
	"fmt"
	"strings"

	"golang.org/x/net/html"

	"verif/harness/internal/core"
	"verif/harness/internal/gen"
	"verif/harness/internal/oracle"
	"verif/harness/internal/spec"
)

// C20 — re-sanitising sanitised output is a no-op.

func init() { Registry["C20"] = runC20 }

var rewrittenAttrs = []string{"href", "src", "cite", "rel", "target", "crossorigin", "sandbox"}

// inClassC20 decides membership of the stated class on the shadow rule set.
func inClassC20(sp *spec.Spec) (bool, string) {
	if sp.RawTextAllowed() {
		return false, "policy allows a raw-text element"
	}
	if sp.Comments {
		return false, "policy allows comments"
	}
	if sp.Rewriter != "" {
		return false, "policy installs a src rewriter"
	}
	pat := func(m map[string][]spec.AttrRule) bool {
		for _, k := range rewrittenAttrs {
			for _, r := range m[k] {
				if r.Re != "" {
					return true
				}
			}
		}
		return false
	}
	if pat(sp.Global) {
		return false, "value pattern on a rewritten attribute"
	}
	for _, m := range sp.Els {
		if pat(m) {
			return false, "value pattern on a rewritten attribute"
		}
	}
	for _, p := range sp.ElPats {
		if pat(p.Attrs) {
			return false, "value pattern on a rewritten attribute"
		}
	}
	return true, ""
}

func firstDiffToken(a, b string) string {
	ta, tb := oracle.Tokens(a), oracle.Tokens(b)
	for i := 0; i < len(ta) && i < len(tb); i++ {
		if ta[i].Raw != tb[i].Raw {
			if ta[i].Type == html.TextToken || tb[i].Type == html.TextToken {
				return "text"
			}
			if ta[i].Name != tb[i].Name || ta[i].Type != tb[i].Type {
				return "tag-sequence"
			}
			// same tag: same attributes in another order?
			if len(ta[i].Attrs) == len(tb[i].Attrs) {
				ma, forced := map[string]int{}, false
				for _, x := range ta[i].Attrs {
					ma[x.Key+"\x00"+x.Val]++
				}
				for _, x := range tb[i].Attrs {
					ma[x.Key+"\x00"+x.Val]--
				}
				same := true
				for _, n := range ma {
					if n != 0 {
						same = false
					}
				}
				if same {
					for j := range ta[i].Attrs {
						if ta[i].Attrs[j] != tb[i].Attrs[j] {
							switch ta[i].Attrs[j].Key {
							case "rel", "target", "crossorigin", "sandbox":
								forced = true
							}
							switch tb[i].Attrs[j].Key {
							case "rel", "target", "crossorigin", "sandbox":
								forced = true
							}
						}
					}
					if forced {
						return "attr-order:forced-attribute-moved"
					}
					return "attr-order"
				}
			}
			// same tag: which attribute differs?
			for j := 0; j < len(ta[i].Attrs) && j < len(tb[i].Attrs); j++ {
				if ta[i].Attrs[j] != tb[i].Attrs[j] {
					return "attr:" + attrClass(ta[i].Attrs[j].Key)
				}
			}
			return "attr-count"
		}
	}
	if len(ta) != len(tb) {
		return "token-count"
	}
	return "bytes"
}

func runC20(ctx *core.Ctx) {
	ctx.Rule = "policies drawn inside the stated class (no raw-text elements, no comments, no value pattern on URL attributes/rel/target/crossorigin/sandbox, no rewriter; every link option, URL option, data attributes, style rules, space insertion) plus StrictPolicy and UGCPolicy x hostile documents, corpus mutants and piece strings; oracle: Sanitize(Sanitize(x)) == Sanitize(x) byte for byte; class membership is re-checked on the shadow rule set and out-of-class cases are skipped; non-trivial = first pass output non-empty and containing markup or a character reference, distinct by (policy, input)"
	ctx.Assume("UGCPolicy cases where a del/ins cite survives the first pass are outside the property and skipped")
	judge := func(cs *core.Case, ob *Obs, lc core.LocalCounts, ugc bool) {
		s1 := ob.Out
		if ugc {
			for _, t := range ob.OutT {
				if (t.Name == "del" || t.Name == "ins") && t.Type != html.EndTagToken {
					for _, a := range t.Attrs {
						if a.Key == "cite" {
							cs.Skip("UGC: a del/ins cite survived the first pass")
							return
						}
					}
				}
			}
		}
		s2 := ob.Env.Pol.Sanitize(s1)
		cs.Eval()
		lc["double_sanitise_comparisons"]++
		if s2 != s1 {
			w := ob.Witness()
			w["second_pass"] = core.Show(s2)
			cs.Violate("C20:not-idempotent:"+firstDiffToken(s1, s2), fmt.Sprintf("Sanitize(Sanitize(x)) != Sanitize(x): first=%q second=%q input=%q", core.Clip(s1, 300), core.Clip(s2, 300), core.Clip(ob.In, 300)), w)
		}
		if s1 != "" && strings.ContainsAny(s1, "<&") {
			cs.Nontrivial(core.Hash(strings.Join(spec.Describe(ob.Env.Ops), ";"), ob.In))
			if cs.Ctx.WantSample("doc") && len(ob.In) < 250 {
				cs.Sample("doc", map[string]interface{}{"policy": spec.Describe(ob.Env.Ops), "input": core.Show(ob.In), "first_pass": core.Show(s1)})
			}
		}
	}
	opts := spec.GenOpts{Styles: true, NoRawText: true, NoComments: true, NoRewriter: true, NoURLValRe: true, Base: []string{spec.KNew, spec.KNew, spec.KNew, spec.KStrict}}
	ctx.Run("policy-docs", ctx.N(2500, 50000), func(cs *core.Case) {
		ops := spec.RandomOps(cs.R, opts)
		// the helper ops attach documented patterns to non-rewritten attributes only, except
		// AllowTables/AllowImages/AllowLists which do not touch rewritten attributes either
		env := NewEnv(ops)
		if ok, why := inClassC20(env.Spec); !ok {
			cs.Skip("generated policy outside the class: " + why)
			return
		}
		lc := core.LocalCounts{}
		lc["in_class_policies"]++
		for i := 0; i < ctx.N(150, 400); i++ {
			ob := observe(env, env.HostileInput(cs.R), 0)
			cs.Eval()
			judge(cs, ob, lc, false)
		}
		cs.Flush(lc)
	})
	// forced attributes: every combination of "which managed attributes do the rules also allow"
	// x link options x crossorigin/sandbox, on the elements that receive forced attributes
	ctx.Run("forced-attributes", 1<<9, func(cs *core.Case) {
		m := cs.Index
		ops := []spec.Op{{K: spec.KNew}, {K: spec.KAllowAttrs, Attrs: []string{"href", "src", "x"}, Scope: "els", Names: []string{"a", "area", "link", "img", "audio"}},
			{K: spec.KSchemes, Names: []string{"http", "https"}}, {K: spec.KSwitch, Names: []string{spec.SwRelative}, B: true}}
		var allowed []string
		for i, k := range []string{"rel", "target", "crossorigin", "sandbox"} {
			if m&(1<<uint(i)) != 0 {
				allowed = append(allowed, k)
			}
		}
		if len(allowed) > 0 {
			ops = append(ops, spec.Op{K: spec.KAllowAttrs, Attrs: allowed, Scope: "global"})
		}
		for i, n := range []string{spec.SwNoFollow, spec.SwNoReferrerFQ, spec.SwTargetBlank, spec.SwCrossOrigin} {
			if m&(1<<uint(4+i)) != 0 {
				ops = append(ops, spec.Op{K: spec.KSwitch, Names: []string{n}, B: true})
			}
		}
		if m&(1<<8) != 0 { // (iframe is a raw-text element and outside the class, so no sandbox here)
			ops = append(ops, spec.Op{K: spec.KSwitch, Names: []string{spec.SwNoReferrer}, B: true})
		}
		env := NewEnv(ops)
		if ok, why := inClassC20(env.Spec); !ok {
			cs.Skip("forced-attributes policy outside the class: " + why)
			return
		}
		lc := core.LocalCounts{}
		r := cs.R
		for i := 0; i < 60; i++ {
			el := gen.Pick(r, []string{"a", "area", "link", "img", "audio"})
			nd := &gen.Node{Name: el, NoEnd: true}
			k := "href"
			if el == "img" || el == "audio" {
				k = "src"
			}
			nd.Attrs = append(nd.Attrs, [2]string{k, gen.Pick(r, []string{"http://example.org/", "/rel", "https://example.org/a?b=c"})})
			for _, extra := range []string{"rel", "target", "crossorigin", "sandbox", "x"} {
				if r.Intn(3) == 0 {
					nd.Attrs = append(nd.Attrs, [2]string{extra, gen.Pick(r, []string{"nofollow", "_blank", "anonymous", "allow-forms", "y", "noopener x", "_self"})})
				}
			}
			r.Shuffle(len(nd.Attrs), func(i, j int) { nd.Attrs[i], nd.Attrs[j] = nd.Attrs[j], nd.Attrs[i] })
			ob := observe(env, gen.Serialize(r, []*gen.Node{nd}, 0), 0)
			cs.Eval()
			lc["forced_attribute_cases"]++
			judge(cs, ob, lc, false)
		}
		cs.Flush(lc)
	})
	// URL normalisation on its own: one tag, one URL, every URL position; URL option shapes incl. UGC
	ctx.Run("url-normalisation", ctx.N(400, 6000), func(cs *core.Case) {
		r := cs.R
		var ops []spec.Op
		switch cs.Index % 5 {
		case 0:
			ops = []spec.Op{{K: spec.KUGC}}
		case 1:
			ops = []spec.Op{{K: spec.KNew}, {K: spec.KStdURLs}}
		case 2:
			ops = []spec.Op{{K: spec.KNew}, {K: spec.KSwitch, Names: []string{spec.SwRelative}, B: true}, {K: spec.KSchemes, Names: []string{"http", "https", "ftp", "mailto", "tel", "x-app"}}, {K: spec.KSchemesMatching, Re: `^(web\+[a-z]+|git\+ssh)$`}}
		case 3:
			ops = []spec.Op{{K: spec.KNew}, {K: spec.KSwitch, Names: []string{spec.SwParseable}, B: true}, {K: spec.KSwitch, Names: []string{spec.SwRelative}, B: true}, {K: spec.KDataURIImages}}
		default:
			ops = []spec.Op{{K: spec.KNew}, {K: spec.KSchemes, Names: []string{"https"}}, {K: spec.KSchemeCustom, Names: []string{"http"}, Check: "always"}, {K: spec.KSwitch, Names: []string{spec.SwRelative}, B: r.Intn(2) == 0}}
		}
		if cs.Index%5 != 0 {
			ops = append(ops, spec.Op{K: spec.KAllowAttrs, Attrs: []string{"href", "src", "cite", "poster", "x"}, Scope: "global"},
				spec.Op{K: spec.KAllowElements, Names: []string{"a", "area", "link", "base", "blockquote", "q", "img", "audio", "video", "source", "track", "embed", "input", "p"}})
			if r.Intn(3) == 0 {
				ops = append(ops, spec.Op{K: spec.KSwitch, Names: []string{gen.Pick(r, []string{spec.SwNoFollow, spec.SwTargetBlank, spec.SwNoReferrerFQ})}, B: true})
			}
		}
		env := NewEnv(ops)
		if ok, why := inClassC20(env.Spec); !ok {
			cs.Skip("url-normalisation policy outside the class: " + why)
			return
		}
		lc := core.LocalCounts{}
		for i := 0; i < 600; i++ {
			pos := strings.Split(gen.Pick(r, []string{"a href", "area href", "blockquote cite", "q cite", "img src", "a href", "link href", "audio src", "p x"}), " ")
			nd := &gen.Node{Name: pos[0], NoEnd: oracle.Void[pos[0]], Attrs: [][2]string{{pos[1], gen.HostileURL(r)}}}
			if !nd.NoEnd {
				nd.Kids = []*gen.Node{{Text: "t"}}
			}
			ob := observe(env, gen.Serialize(r, []*gen.Node{nd}, 0), 0)
			cs.Eval()
			lc["url_normalisation_cases"]++
			if strings.Contains(ob.Out, pos[1]+"=") {
				lc["url_normalisation_cases_url_kept"]++
			}
			judge(cs, ob, lc, cs.Index%5 == 0)
		}
		cs.Flush(lc)
	})
	// style normalisation on its own: every noise value (escapes, comments, brackets, bangs, quotes ...)
	// as the value of one declaration under matchers that accept anything, alone and next to others
	noise := gen.CSSNoiseValues()
	ctx.Run("style-normalisation", len(noise), func(cs *core.Case) {
		v := noise[cs.Index]
		lc := core.LocalCounts{}
		for variant := 0; variant < 3; variant++ {
			m := spec.Op{K: spec.KAllowStyles, Attrs: []string{"margin", "padding", "color"}, Matcher: "handler", Handler: "any", Scope: "global"}
			if variant == 1 {
				m = spec.Op{K: spec.KAllowStyles, Attrs: []string{"margin", "padding", "color"}, Matcher: "re", Re: `(?s)^.*$`, Scope: "els", Names: []string{"span"}}
			}
			if variant == 2 {
				m = spec.Op{K: spec.KAllowStyles, Attrs: []string{"margin", "padding", "color"}, Matcher: "handler", Handler: "tiny", Scope: "match", ElRe: `^sp`}
			}
			env := NewEnv([]spec.Op{{K: spec.KNew}, {K: spec.KAllowElements, Names: []string{"span"}}, m})
			if ok, why := inClassC20(env.Spec); !ok {
				cs.Skip("style-normalisation policy outside the class: " + why)
				return
			}
			others := []string{"", "red", "x !important", noise[(cs.Index*7+3)%len(noise)], noise[(cs.Index*13+5)%len(noise)]}
			for _, o := range others {
				for _, form := range []string{"margin: " + v, "margin: " + v + "; color: " + o, "color: " + o + "; margin: " + v, "margin: " + v + " !important; padding: " + o, "margin:" + v + ";padding:" + v, "margin: " + o + "; padding: " + v + ";"} {
					ob := observe(env, `<span style="`+gen.CanonEscape(form)+`">x</span>`, 0)
					cs.Eval()
					lc["style_normalisation_cases"]++
					if strings.Contains(ob.Out, "style=") {
						lc["style_normalisation_cases_style_kept"]++
					}
					judge(cs, ob, lc, false)
				}
			}
		}
		cs.Flush(lc)
	})
	ctx.Floor("style_normalisation_cases_style_kept", 2000)
	for _, base := range []string{spec.KStrict, spec.KUGC} {
		base := base
		ctx.Run("shipped:"+base, ctx.N(200, 2000), func(cs *core.Case) {
			env := NewEnv([]spec.Op{{K: base}})
			lc := core.LocalCounts{}
			for i := 0; i < ctx.N(200, 500); i++ {
				ob := observe(env, env.HostileInput(cs.R), 0)
				cs.Eval()
				judge(cs, ob, lc, base == spec.KUGC)
			}
			cs.Flush(lc)
		})
	}
	// one giant token whose written form is larger than its source form (every & < > " ' CR
	// becomes a 4-5 byte reference): the second pass reads a token up to five times the size of
	// the one the first pass read, so any size-dependent behaviour of the reader (a buffer cap, a
	// fast path above some length) shows as a difference between the passes. Sizes climb by x4
	// and '&' grows x5, so the intervals [n, 5n) of caught thresholds are contiguous from 32 KiB
	// to 40 MiB (quick) / 160 MiB (thorough). Sequential: each case holds two strings of 5n bytes.
	ladder := []int{32 << 10, 128 << 10, 512 << 10, 2 << 20, 8 << 20}
	if !ctx.Quick() {
		ladder = append(ladder, 32<<20)
	}
	type giant struct{ pol, shape, unit string }
	giants := []giant{{"strict", "text", "&"}, {"ugc", "text", "&"}, {"ugc", "text", "\""}, {"ugc", "text", "a\r>'"}, {"ugc", "text", "< "},
		{"title", "attr", "&"}, {"title", "attr", "<\""}, {"ugc", "nested-text", "&"}}
	ctx.RunSeq("growth-ladder", len(ladder)*len(giants), func(cs *core.Case) {
		n, g := ladder[cs.Index/len(giants)], giants[cs.Index%len(giants)]
		if n > 8<<20 && g.unit != "&" { // the top rung only with the densest growth
			cs.Skip("top rung runs with '&' only")
			return
		}
		var ops []spec.Op
		switch g.pol {
		case "strict":
			ops = []spec.Op{{K: spec.KStrict}}
		case "ugc":
			ops = []spec.Op{{K: spec.KUGC}}
		default:
			ops = []spec.Op{{K: spec.KNew}, {K: spec.KAllowElements, Names: []string{"p"}}, {K: spec.KAllowAttrs, Attrs: []string{"title"}, Scope: "global"}}
		}
		env := NewEnv(ops)
		if ok, why := inClassC20(env.Spec); !ok && g.pol == "title" {
			cs.Skip("growth-ladder policy outside the class: " + why)
			return
		}
		body := strings.Repeat(g.unit, n/len(g.unit))
		in := body
		switch g.shape {
		case "attr":
			in = `<p title="` + strings.ReplaceAll(body, `"`, "'") + `">x</p>`
		case "nested-text":
			in = "<p><b>" + body + "</b></p>"
		}
		s1 := env.Pol.Sanitize(in)
		s2 := env.Pol.Sanitize(s1)
		cs.Eval()
		cs.Count("double_sanitise_comparisons", 1)
		cs.Count("growth_ladder_cases", 1)
		ctx.ExtraMax("growth_ladder_largest_second_pass_input_bytes", int64(len(s1)))
		if len(s1) > len(in)+len(in)/2 {
			cs.Count("growth_ladder_cases_output_grew_by_half_or_more", 1)
		}
		if s2 != s1 {
			cs.Violate("C20:not-idempotent:giant-token", fmt.Sprintf("Sanitize(Sanitize(x)) != Sanitize(x) for one %d-byte %s token made of %q under %s: len(first)=%d len(second)=%d first=%q second=%q", len(in), g.shape, g.unit, g.pol, len(s1), len(s2), core.Clip(s1, 80), core.Clip(s2, 80)),
				map[string]interface{}{"policy": spec.Describe(ops), "shape": g.shape, "unit": g.unit, "input_bytes": len(in), "first_pass_bytes": len(s1), "second_pass_bytes": len(s2)})
		}
		if s1 != "" {
			cs.Nontrivial(core.Hash(g.pol, g.shape, g.unit, fmt.Sprint(n)))
		}
	})
	ctx.Floor("growth_ladder_cases_output_grew_by_half_or_more", 20)
	piecesWorkload(ctx, ctx.N(4, 5), []string{"ugc"}, func(cs *core.Case, ob *Obs, lc core.LocalCounts) { judge(cs, ob, lc, true) })
	piecesWorkload(ctx, ctx.N(4, 4), []string{"strict", "pattern-everything", "foreign"}, func(cs *core.Case, ob *Obs, lc core.LocalCounts) { judge(cs, ob, lc, false) })
	ctx.MinNontrivial(int64(ctx.N(20000, 300000)))
	ctx.Floor("double_sanitise_comparisons", 100000)
	ctx.Floor("in_class_policies", 100)
	ctx.Floor("url_normalisation_cases_url_kept", 10000)
}
