package mon

import (
	"fmt"
	"math/rand"
	"net/url"
	"sort"
	"strings"

	"golang.org/x/net/html"

	"verif/harness/internal/core"
	"verif/harness/internal/gen"
	"verif/harness/internal/oracle"
	"verif/harness/internal/spec"
)

// C07 — conforming content passes through unchanged (rules are additive).

func init() { Registry["C07"] = runC07 }

var c07StyleValues = []string{"red", "blue", "left", "right", "10px", "none", "a b", "bold", "12", "123", "abc", "safe-abc", "#abc", "12%", "1em", "inherit", "auto", "x", "solid", "center", "1", "0.5", "block"}

// conformingStyle builds a clean style value the strict style rules accept, or "".
func (e *Env) conformingStyle(r *rand.Rand, el string, used map[string]bool) string {
	props := map[string]bool{}
	if len(e.Spec.StyEls[el]) > 0 {
		for p := range e.Spec.StyEls[el] {
			props[p] = true
		}
	} else {
		for _, sp := range e.Spec.StyPats {
			if gen.Re(sp.Re).MatchString(el) {
				for p := range sp.Props {
					props[p] = true
				}
			}
		}
	}
	for p := range e.Spec.StyGlobal {
		props[p] = true
	}
	names := make([]string, 0, len(props))
	for p := range props {
		if strings.ContainsAny(p, " \\:;") {
			continue
		}
		// a property allowlisted WITH a vendor prefix is outside "vendor prefix ignored": not generated
		bare := p
		for _, pre := range oracle.VendorPrefixes {
			bare = strings.TrimPrefix(bare, pre)
		}
		if bare != p {
			continue
		}
		names = append(names, p)
	}
	sort.Strings(names)
	r.Shuffle(len(names), func(i, j int) { names[i], names[j] = names[j], names[i] })
	var decls []string
	for _, p := range names {
		if len(decls) >= 3 {
			break
		}
		rules := e.Spec.StyleRulesStrict(el, p)
		if len(rules) == 0 {
			continue
		}
		// a value accepted by exactly the rule we pick (any one of the overlapping rules)
		ru := rules[r.Intn(len(rules))]
		cands := append([]string{}, c07StyleValues...)
		cands = append(cands, ru.Enum...)
		r.Shuffle(len(cands), func(i, j int) { cands[i], cands[j] = cands[j], cands[i] })
		for _, v := range cands {
			if v != strings.TrimSpace(v) || v == "" {
				continue
			}
			if spec.StyleAccepts(ru, strings.ToLower(v)) {
				decls = append(decls, p+": "+v)
				used[fmt.Sprintf("style:%s", ru.Kind)] = true
				used[fmt.Sprintf("style-scope:%s", scopeOfStyle(e.Spec, el, p))] = true
				break
			}
		}
	}
	return strings.Join(decls, "; ")
}

func scopeOfStyle(sp *spec.Spec, el, p string) string {
	if len(sp.StyEls[el][p]) > 0 {
		return "element"
	}
	if len(sp.StyGlobal[p]) > 0 {
		return "global-or-pattern"
	}
	return "pattern"
}

func managedAttr(sp *spec.Spec, el, k string) bool {
	switch {
	case (k == "rel" || k == "target") && linkEls[el] && sp.AnyLinkOption():
		return true
	case k == "crossorigin" && crossOriginEls[el] && sp.CrossOrigin:
		return true
	case k == "sandbox" && el == "iframe" && sp.Sandbox != nil:
		return true
	case k == "src" && sp.Rewriter != "" && urlPosition(el, "src"):
		return true
	}
	return false
}

// conformingURL: a canonical URL the policy admits, or ok=false.
func (e *Env) conformingURL(r *rand.Rand) (string, bool) {
	sp := e.Spec
	if !sp.URLCheck {
		return gen.CanonicalURL(r, gen.Pick(r, []string{"", "http", "https", "mailto", "ftp"})), true
	}
	var opts []string
	if sp.Relative {
		opts = append(opts, "")
	}
	for s := range sp.Schemes {
		if s == strings.ToLower(s) && (s == "http" || s == "https" || s == "mailto" || s == "ftp" || s == "tel" || s == "data") {
			opts = append(opts, s)
		}
	}
	// schemes only a scheme pattern admits ("if they match a regexp": anywhere in the scheme, unless the
	// pattern is anchored)
	for _, cand := range []string{"ftp", "sftp", "ftps", "tel", "ws", "wss", "x-app", "web+https"} {
		if _, named := sp.Schemes[cand]; named {
			continue
		}
		for _, pat := range sp.SchemePats {
			if gen.Re(pat).MatchString(cand) {
				opts = append(opts, cand)
				break
			}
		}
	}
	sort.Strings(opts)
	for try := 0; try < 8 && len(opts) > 0; try++ {
		s := opts[r.Intn(len(opts))]
		u := gen.CanonicalURL(r, s)
		if s == "" {
			if strings.HasPrefix(u, "//") && false {
				continue
			}
			return u, true
		}
		pu, err := url.Parse(u)
		if err != nil || pu.String() != u {
			continue
		}
		if sp.SchemeVerdict(s, pu) {
			return u, true
		}
	}
	return "", false
}

var c07PlainValues = []string{"v", "some text", "a&b", "x<y", "q\"uote", "it's", "tab\there", "é", "100%", "a=b;c", "", " lead and trail ", "line\nbreak", "𝒳 ünï © ™", "&amp; &lt; &#38;", "!#$%()*+,-./:;=?@[]^_`{|}~",
	strings.Repeat("long value ", 500), "a\u00a0b\u2028c", "<script>alert(1)</script>", "javascript:alert(1)", "1997-07-16T19:20:30.45+01:00"}

// conformingAttrs draws attributes for el that the strict rules guarantee to survive unchanged.
func (e *Env) conformingAttrs(r *rand.Rand, el string, used map[string]bool) [][2]string {
	sp := e.Spec
	keys := map[string]bool{}
	if m, ok := sp.Els[el]; ok {
		for k := range m {
			keys[k] = true
		}
	} else {
		for _, p := range sp.ElPats {
			if gen.Re(p.Re).MatchString(el) {
				for k := range p.Attrs {
					keys[k] = true
				}
			}
		}
	}
	for k := range sp.Global {
		keys[k] = true
	}
	names := make([]string, 0, len(keys))
	for k := range keys {
		names = append(names, k)
	}
	sort.Strings(names)
	r.Shuffle(len(names), func(i, j int) { names[i], names[j] = names[j], names[i] })
	var out [][2]string
	want := r.Intn(4)
	if !sp.BareAllowed(el) && want == 0 {
		want = 1
	}
	for _, k := range names {
		if len(out) >= want {
			break
		}
		if managedAttr(sp, el, k) || strings.ContainsAny(k, " \"'<>=/\x00") || k == "" || k != strings.ToLower(k) {
			continue
		}
		// the data-attribute passthrough takes precedence over rules; avoid names it would judge
		if sp.DataAttrs && wellFormedData(k) {
			continue
		}
		rules := sp.RulesStrict(el, k)
		if len(rules) == 0 {
			continue
		}
		if k == "style" && sp.HasStyleRules(el) {
			if v := e.conformingStyle(r, el, used); v != "" {
				out = append(out, [2]string{"style", v})
			}
			continue
		}
		ru := rules[r.Intn(len(rules))]
		scope := "global"
		if len(sp.Els[el][k]) > 0 {
			scope = "element"
		} else if !sp.Explicit(el) && len(sp.Global[k]) == 0 {
			scope = "pattern"
		}
		if sp.URLCheck && urlPosition(el, k) || (!sp.URLCheck && urlPosition(el, k) && r.Intn(2) == 0) {
			u, ok := e.conformingURL(r)
			if !ok {
				continue
			}
			if !spec.Accepts(rules, u) {
				continue
			}
			out = append(out, [2]string{k, u})
			used["url:"+scope] = true
			continue
		}
		var v string
		if ru.Re == "" {
			v = c07PlainValues[r.Intn(len(c07PlainValues))]
			if wk, ok := gen.WellKnownAttrValue(r, k); ok && r.Intn(3) == 0 && !managedAttr(sp, el, k) {
				v = wk // a keyword HTML defines for this attribute (target=_blank, type=application/json, ...)
			}
			used["unpatterned:"+scope] = true
		} else {
			good, _ := gen.Pools(ru.Re)
			if len(good) == 0 {
				continue
			}
			v = good[r.Intn(len(good))]
			if strings.ContainsAny(v, "\x00\r") {
				continue
			}
			used["patterned:"+scope] = true
			if len(rules) > 1 {
				used["overlapping-rules"] = true
				n := 0
				for _, o := range rules {
					if o.Re == "" || gen.Re(o.Re).MatchString(v) {
						n++
					}
				}
				if n == 1 {
					used["value-accepted-by-exactly-one-rule"] = true
				}
			}
		}
		out = append(out, [2]string{k, v})
	}
	if sp.HasStyleRules(el) && r.Intn(2) == 0 {
		has := false
		for _, a := range out {
			if a[0] == "style" {
				has = true
			}
		}
		if !has {
			if v := e.conformingStyle(r, el, used); v != "" {
				out = append(out, [2]string{"style", v})
			}
		}
	}
	if sp.DataAttrs && r.Intn(4) == 0 {
		out = append(out, [2]string{gen.Pick(r, []string{"data-x", "data-foo-bar", "data-a1", "data-é", "data-a:b", "data-x.y", "data-1", "data-a_b", "data-x:y:z", "data-xm", "data-a--b", "data-ü:ö"}), c07PlainValues[r.Intn(len(c07PlainValues))]})
		used["data-attribute"] = true
	}
	return out
}

// conformingDoc draws a document over the policy's own vocabulary.
func (e *Env) conformingDoc(r *rand.Rand, used map[string]bool) (string, int) {
	sp := e.Spec
	var els []string
	for _, n := range e.ElementCandidates() {
		if sp.ElementAllowed(n) && !strings.ContainsAny(n, "<\"=' /") && n != "image" && n != "plaintext" {
			els = append(els, n)
		}
	}
	if len(els) == 0 {
		return gen.CanonEscape(gen.HostileText(r)), 0
	}
	nAttrEls := 0
	var build func(depth int) []*gen.Node
	build = func(depth int) []*gen.Node {
		var out []*gen.Node
		for i := 0; i < 1+r.Intn(3); i++ {
			if r.Intn(3) == 0 {
				t := gen.HostileText(r)
				if strings.ContainsAny(t, "\x00\r") || !validUTF8(t) {
					t = "text"
				}
				out = append(out, &gen.Node{Text: t})
				continue
			}
			if sp.Comments && r.Intn(10) == 0 {
				out = append(out, &gen.Node{Name: "#comment", Text: gen.Pick(r, []string{" note ", "x", "a b c"})})
				continue
			}
			el := els[r.Intn(len(els))]
			attrs := e.conformingAttrs(r, el, used)
			if len(attrs) == 0 && !sp.BareAllowed(el) {
				continue // cannot be emitted bare and no rule can give it an attribute
			}
			nd := &gen.Node{Name: el, Attrs: attrs}
			if len(attrs) > 0 {
				nAttrEls++
			}
			if sp.Explicit(el) {
				used["element:explicit"] = true
			} else {
				used["element:pattern"] = true
			}
			switch {
			case oracle.Void[el]:
				nd.SelfCl = r.Intn(3) == 0
			case el == "xmp" || el == "iframe" || el == "noembed" || el == "noframes" || el == "noscript":
				nd.Kids = []*gen.Node{{Text: gen.RandIdent(r, 1+r.Intn(6))}}
			case el == "textarea" || el == "title":
				nd.Kids = []*gen.Node{{Text: gen.Pick(r, []string{"plain", "a & b", "x < y"})}}
			case depth < 3 && r.Intn(3) > 0:
				nd.Kids = build(depth + 1)
			}
			out = append(out, nd)
		}
		return out
	}
	doc := gen.Serialize(r, build(0), 0)
	if r.Intn(40) == 0 { // a document several tokenizer buffers long
		var b strings.Builder
		for b.Len() < 9000 {
			b.WriteString(doc)
			b.WriteString(gen.Serialize(r, build(1), 0))
		}
		doc = b.String()
	}
	return doc, nAttrEls
}

func validUTF8(s string) bool {
	for _, r := range s {
		if r == 0xFFFD {
			return false
		}
	}
	return true
}

// equalModuloManaged compares token streams, ignoring managed attributes.
func equalModuloManaged(sp *spec.Spec, in, out string) (bool, string) {
	a, b := oracle.Tokens(in), oracle.Tokens(out)
	for i := 0; i < len(a) || i < len(b); i++ {
		if i >= len(a) {
			return false, fmt.Sprintf("output has an extra token %q", b[i].Raw)
		}
		if i >= len(b) {
			return false, fmt.Sprintf("input token %q is missing from the output", a[i].Raw)
		}
		if a[i].Type != b[i].Type || a[i].Name != b[i].Name {
			return false, fmt.Sprintf("token %d: input %q, output %q", i, a[i].Raw, b[i].Raw)
		}
		if !a[i].IsTag() || a[i].Type == html.EndTagToken {
			if a[i].Raw != b[i].Raw {
				return false, fmt.Sprintf("token %d: input %q, output %q", i, a[i].Raw, b[i].Raw)
			}
			continue
		}
		fa, fb := [][2]string{}, [][2]string{}
		managed := false
		for _, x := range a[i].Attrs {
			if !managedAttr(sp, a[i].Name, x.Key) {
				fa = append(fa, [2]string{x.Key, x.Val})
			}
		}
		for _, x := range b[i].Attrs {
			if !managedAttr(sp, a[i].Name, x.Key) {
				fb = append(fb, [2]string{x.Key, x.Val})
			} else {
				managed = true
			}
		}
		if fmt.Sprint(fa) != fmt.Sprint(fb) {
			return false, fmt.Sprintf("tag %d <%s>: input attributes %q, output attributes %q", i, a[i].Name, fa, fb)
		}
		// link hardening adds exactly what the options ask for: conforming documents carry no rel or
		// target of their own on links under a link option, so the output's rel tokens and target are
		// the sanitiser's. "Fully qualified" = the canonical href names a host (scheme://host or //host).
		if sp.AnyLinkOption() && linkEls[a[i].Name] {
			href, hasHref := "", false
			for _, x := range b[i].Attrs {
				if x.Key == "href" {
					href, hasHref = x.Val, true
				}
			}
			host := strings.HasPrefix(href, "//") || strings.Contains(strings.SplitN(href, "?", 2)[0], "://")
			if _, perr := url.Parse(href); perr != nil {
				// not a URL for net/url (only possible with URL checking switched off again): whether such a
				// value "has a host" is nobody's to say, the fully-qualified options may or may not apply
				continue
			}
			want := map[string]bool{}
			wantTarget := false
			if hasHref {
				if sp.NoFollow || (sp.NoFollowFQ && host) {
					want["nofollow"] = true
				}
				if sp.NoReferrer || (sp.NoReferrerFQ && host) {
					want["noreferrer"] = true
				}
				if sp.TargetBlank && host && a[i].Name == "a" {
					wantTarget = true
					want["noopener"] = true
				}
			}
			got := map[string]bool{}
			gotTarget, nRel := "", 0
			for _, x := range b[i].Attrs {
				switch x.Key {
				case "rel":
					nRel++
					for _, t := range oracle.RelTokens(x.Val) {
						got[t] = true
					}
				case "target":
					gotTarget = x.Val
				}
			}
			if fmt.Sprint(got) != fmt.Sprint(want) || nRel > 1 || (gotTarget == "_blank") != wantTarget || (gotTarget != "" && gotTarget != "_blank") {
				return false, fmt.Sprintf("tag %d <%s href=%q>: the link options ask for rel tokens %v and target=_blank:%v, the output has rel tokens %v (%d rel attributes) and target %q", i, a[i].Name, href, keysOf(want), wantTarget, keysOf(got), nRel, gotTarget)
			}
		}
		if !managed && a[i].Raw != b[i].Raw {
			return false, fmt.Sprintf("tag %d: input %q, output %q", i, a[i].Raw, b[i].Raw)
		}
	}
	return true, ""
}

func runC07(ctx *core.Ctx) {
	ctx.Rule = "random policies; documents generated from each policy's own shadow vocabulary in canonical serialisation: every allowed element (explicit or pattern-matched), attributes drawn from the rules guaranteed to apply (element rules, else matching-pattern rules, plus global), values accepted by one randomly chosen rule among overlapping ones, canonical URLs of allowed schemes, clean style declarations accepted by one style rule, data attributes; oracle: output equals input byte for byte, managed attributes (rel/target under link options, crossorigin, sandbox, rewritten src) excepted; non-trivial = document has >= 1 element with >= 1 attribute, distinct by (policy, document)"
	ctx.Assume("canonical serialisation = what x/net/html Token.String emits", "explicitly named elements ignore pattern rules (README)", "an element that can neither be bare nor receive an attribute under the policy is not generated")
	opts := spec.GenOpts{Styles: true}
	nPol, nDoc := ctx.N(5000, 60000), ctx.N(150, 400)
	run := func(stream string, mk func(cs *core.Case) []spec.Op, n int) {
		ctx.Run(stream, n, func(cs *core.Case) {
			env := NewEnv(mk(cs))
			lc := core.LocalCounts{}
			used := map[string]bool{}
			for i := 0; i < nDoc; i++ {
				doc, nAttr := env.conformingDoc(cs.R, used)
				if strings.TrimSpace(doc) == "" {
					continue
				}
				out := SanitizeVia(env.Pol, doc, i)
				cs.Eval()
				lc["conforming_documents"]++
				if out != doc {
					ok, why := equalModuloManaged(env.Spec, doc, out)
					if !ok {
						cs.Violate("C07:changed:"+c07Class(why), fmt.Sprintf("a conforming document was altered: %s; input=%q output=%q policy=%v", why, core.Clip(doc, 300), core.Clip(out, 300), spec.Describe(env.Ops)),
							map[string]interface{}{"policy": spec.Describe(env.Ops), "ops": env.Ops, "input": core.Show(doc), "output": core.Show(out), "why": why})
					} else {
						lc["equal_modulo_managed_attributes"]++
					}
				}
				if nAttr > 0 {
					cs.Nontrivial(core.Hash(strings.Join(spec.Describe(env.Ops), ";"), doc))
					if cs.Ctx.WantSample("doc") && len(doc) < 300 {
						cs.Sample("doc", map[string]interface{}{"policy": spec.Describe(env.Ops), "conforming_document": core.Show(doc), "output_equal": out == doc})
					}
				}
			}
			for k := range used {
				lc["rule_coverage:"+k]++
			}
			cs.Flush(lc)
		})
	}
	run("random-policies", func(cs *core.Case) []spec.Op { return spec.RandomOps(cs.R, opts) }, nPol)
	shipped := [][]spec.Op{{{K: spec.KUGC}}, spec.CmdUGCOps(), spec.CmdHTMLEmailOps(), policyFamilies()["foreign"], policyFamilies()["rawtext"], policyFamilies()["pattern-everything"], policyFamilies()["comments-spaces"]}
	run("fixed-policies", func(cs *core.Case) []spec.Op { return shipped[cs.Index%len(shipped)] }, ctx.N(70, 700))
	// well-known valid CSS values under default handlers are conforming content too
	wk := make([]string, 0, len(gen.WellKnownCSS))
	for p := range gen.WellKnownCSS {
		wk = append(wk, p)
	}
	sort.Strings(wk)
	ctx.Run("well-known-css", len(wk)*3, func(cs *core.Case) {
		prop := wk[cs.Index/3]
		op := spec.Op{K: spec.KAllowStyles, Attrs: []string{prop}, Matcher: "default", Scope: []string{"global", "els", "match"}[cs.Index%3], Names: []string{"span"}, ElRe: `^sp`}
		env := NewEnv([]spec.Op{{K: spec.KNew}, {K: spec.KAllowElements, Names: []string{"span", "b"}}, op})
		vals := gen.WellKnownCSS[prop]
		for i, v := range vals {
			doc := `<span style="` + gen.CanonEscape(prop+": "+v) + `">x</span>`
			if i+1 < len(vals) { // two declarations, order kept
				doc += `<b>y</b><span style="` + gen.CanonEscape(prop+": "+v+"; "+prop+": "+vals[i+1]) + `">z</span>`
			}
			out := SanitizeVia(env.Pol, doc, i)
			cs.Eval()
			cs.Count("well_known_css_documents", 1)
			if out != doc {
				cs.Violate("C07:changed:well-known-css-value:"+prop, fmt.Sprintf("a conforming document was altered: %q is a valid value of %q, which the policy allowlists with its default handler; input=%q output=%q", v, prop, doc, out),
					map[string]interface{}{"policy": spec.Describe(env.Ops), "ops": env.Ops, "input": core.Show(doc), "output": core.Show(out)})
			}
			cs.Nontrivial(core.Hash("wkcss", prop, v, fmt.Sprint(cs.Index%3)))
		}
	})
	ctx.Floor("well_known_css_documents", 500)
	ctx.MinNontrivial(int64(ctx.N(10000, 200000)))
	for _, k := range []string{"element:explicit", "element:pattern", "patterned:element", "patterned:global", "patterned:pattern", "unpatterned:element", "url:element", "overlapping-rules", "value-accepted-by-exactly-one-rule", "data-attribute", "style:default", "style:re", "style:enum", "style:handler", "style-scope:element", "style-scope:pattern", "style-scope:global-or-pattern"} {
		ctx.Floor("rule_coverage:"+k, 3)
	}
}

func c07Class(why string) string {
	switch {
	case strings.Contains(why, "attributes"):
		return "attribute-dropped-or-altered"
	case strings.Contains(why, "missing from the output"):
		return "token-missing"
	case strings.Contains(why, "extra token"):
		return "extra-token"
	}
	return "token-differs"
}

func keysOf(m map[string]bool) []string {
	out := []string{}
	for k := range m {
		out = append(out, k)
	}
	sort.Strings(out)
	return out
}
