// Package mon holds one runtime monitor per property.
package mon

import "verif/harness/internal/core"

var Registry = map[string]func(*core.Ctx){}

// Child dispatches worker-child modes (used by C14 for CPU-limited workers).
var childModes = map[string]func(args []string) int{}

func Child(mode string, args []string) int {
	if f, ok := childModes[mode]; ok {
		return f(args)
	}
	return core.ExitInconclusive
}
