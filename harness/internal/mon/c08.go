package mon

import (
	"fmt"
	"sort"

	"golang.org/x/net/html"
	"math/rand"
	"strings"

	"verif/harness/internal/core"
	"verif/harness/internal/gen"
	"verif/harness/internal/oracle"
	"verif/harness/internal/spec"
)

// C08 — content of disallowed invisible-content elements is removed.
// C09 — well-nested input yields well-nested output.
// Both run on the same well-nested document generator.

func init() { Registry["C08"] = runC08; Registry["C09"] = runC09 }

type wnNode struct {
	name   string // "" = text
	text   string
	attrs  [][2]string
	kids   []*wnNode
	selfCl bool // `<br/>` syntax (void elements; non-void elements directly inside svg/math)
}

type wnMarker struct {
	m       string
	comment bool   // planted in a comment / processing instruction / CDATA section, not in text
	inside  bool   // inside a disallowed skip-content element
	path    string // categories from the root
}

type wnDoc struct {
	src     string
	srcCut  string // the same document with everything inside skipped elements left out
	markers []wnMarker
	hasSkip bool // contains at least one skipped region
	feat    map[string]bool
	tags    []string // intended tag sequence, e.g. "S:p", "E:p", "X:br"
}

var wnExclude = map[string]bool{"plaintext": true}

func (e *Env) category(name string) string {
	sp := e.Spec
	allowed := sp.ElementAllowed(name)
	switch {
	case spec.IsScriptStyle(name) && !sp.Unsafe:
		// never survives and its text never appears (C05), whatever the skip set says
		return "skip"
	case !allowed && sp.Skip[name] && oracle.Void[name]:
		return "void-skip"
	case !allowed && sp.Skip[name]:
		return "skip"
	case !allowed && oracle.Void[name]:
		return "void-dropped"
	case !allowed:
		return "dropped"
	case !sp.Explicit(name):
		if oracle.Void[name] {
			return "void-pattern"
		}
		return "pattern"
	case oracle.Void[name]:
		return "void-allowed"
	}
	return "allowed"
}

// wnTree draws a well-nested forest.
func wnTree(r *rand.Rand, e *Env, names []string, depth, maxDepth, maxKids int, mk *int) []*wnNode {
	return wnTreeIn(r, e, names, depth, maxDepth, maxKids, mk, "")
}

// foreignBreakout: HTML element names that end foreign content when they appear inside svg/math.
var foreignBreakout = map[string]bool{"b": true, "big": true, "blockquote": true, "body": true, "br": true, "center": true, "code": true, "dd": true, "div": true, "dl": true, "dt": true, "em": true, "embed": true,
	"h1": true, "h2": true, "h3": true, "h4": true, "h5": true, "h6": true, "head": true, "hr": true, "i": true, "img": true, "li": true, "listing": true, "menu": true, "meta": true, "nobr": true, "ol": true, "p": true, "pre": true,
	"ruby": true, "s": true, "small": true, "span": true, "strong": true, "strike": true, "sub": true, "sup": true, "table": true, "tt": true, "u": true, "ul": true, "var": true, "font": true}

func wnTreeIn(r *rand.Rand, e *Env, names []string, depth, maxDepth, maxKids int, mk *int, parent string) []*wnNode {
	n := 1 + r.Intn(maxKids)
	var out []*wnNode
	for i := 0; i < n; i++ {
		if r.Intn(3) == 0 {
			*mk++
			out = append(out, &wnNode{text: wnMarkerText(r, *mk)})
			continue
		}
		if r.Intn(9) == 0 {
			// markup that is not an element: a comment, a processing instruction or a CDATA section (both
			// bogus comments to an HTML tokenizer) carrying a marker
			*mk++
			out = append(out, &wnNode{name: "#comment", text: gen.Pick(r, []string{"<!-- %s -->", "<!--%s-->", "<?pi %s?>", "<![CDATA[%s]]>", "<!-- %s --!>", "<!%s>"}), attrs: [][2]string{{"marker", fmt.Sprintf("zqcm%06d", *mk)}}})
			continue
		}
		name := names[r.Intn(len(names))]
		if (parent == "svg" || parent == "math") && r.Intn(2) == 0 {
			// children that make sense in foreign content, skip-content names among them
			fc := []string{"g", "path", "a", "circle", "mi", "mtext", "object", "nostyle", "frameset", "my-x", "x-foo", "desc", "use", "svg"}
			for n := range e.Spec.Skip {
				if !wnExclude[n] && !rawTextNames[n] && !spec.IsScriptStyle(n) {
					fc = append(fc, n)
				}
			}
			sort.Strings(fc)
			name = fc[r.Intn(len(fc))]
		}
		nd := &wnNode{name: name}
		if r.Intn(2) == 0 {
			nd.attrs = e.Attrs(r, name)
		}
		switch {
		case oracle.Void[name]:
			nd.selfCl = r.Intn(3) == 0
		case (parent == "svg" || parent == "math") && !rawTextNames[name] && !spec.IsScriptStyle(name) && !foreignBreakout[name] && r.Intn(3) == 0:
			// directly inside svg/math the self-closing syntax is real: <g/> is a complete, empty element
			// (not for raw-text names: the tokenizer alone still reads what follows them as raw text)
			nd.selfCl = true
		case rawTextNames[name] || spec.IsScriptStyle(name):
			if r.Intn(4) > 0 { // sometimes an empty body: <script src=x></script>
				*mk++
				nd.kids = []*wnNode{{text: wnMarkerText(r, *mk)}}
			}
		case depth < maxDepth && r.Intn(4) > 0:
			nd.kids = wnTreeIn(r, e, names, depth+1, maxDepth, maxKids, mk, name)
		}
		out = append(out, nd)
	}
	return out
}

// wnMarkerText: a unique text node. One in five is made of white space only (form feed, then the
// index in 20 binary digits written as tab / newline, then form feed): text like any other, and the
// kind a filter that looks for "visible" characters lets through.
func wnMarkerText(r *rand.Rand, k int) string {
	if r.Intn(5) > 0 {
		return fmt.Sprintf("zqmk%06d", k)
	}
	return wsMarker(k)
}

func wnNames(e *Env) []string {
	var out []string
	for _, n := range e.ElementCandidates() {
		if !wnExclude[n] && !strings.ContainsAny(n, "<\"=") {
			out = append(out, n)
		}
	}
	// make sure skip-content and void names are well represented
	for n := range e.Spec.Skip {
		if !wnExclude[n] {
			out = append(out, n, n)
		}
	}
	out = append(out, "br", "img", "hr", "input", "frame", "object", "frameset", "noscript", "iframe", "title", "my-x", "x-foo", "a", "a", "b", "script", "style", "script", "style", "svg", "svg", "svg", "math", "math", "svg", "body", "html", "head", "image")
	return out
}

// render serialises the forest and classifies every marker.
func (e *Env) wnRender(r *rand.Rand, forest []*wnNode, noise int) wnDoc {
	d := wnDoc{feat: map[string]bool{}}
	var b, cut strings.Builder
	var walk func(ns []*wnNode, inside bool, path []string)
	walk = func(ns []*wnNode, inside bool, path []string) {
		for _, n := range ns {
			if n.name == "" {
				b.WriteString(n.text)
				if !inside {
					cut.WriteString(n.text)
				}
				d.markers = append(d.markers, wnMarker{m: n.text, inside: inside, path: strings.Join(path, ">")})
				continue
			}
			if n.name == "#comment" {
				m := n.attrs[0][1]
				txt := fmt.Sprintf(n.text, m)
				b.WriteString(txt)
				if !inside {
					cut.WriteString(txt)
				}
				d.markers = append(d.markers, wnMarker{m: m, comment: true, inside: inside, path: strings.Join(path, ">")})
				d.feat["comment"] = true
				if inside {
					d.feat["in-skip:comment"] = true
				}
				continue
			}
			cat := e.category(n.name)
			d.feat[cat] = true
			if inside {
				d.feat["in-skip:"+cat] = true
			}
			if n.selfCl {
				d.tags = append(d.tags, "X:"+n.name)
			} else {
				d.tags = append(d.tags, "S:"+n.name)
			}
			g := &gen.Node{Name: n.name, Attrs: n.attrs, SelfCl: n.selfCl, NoEnd: true}
			tag := gen.Serialize(r, []*gen.Node{g}, noise)
			b.WriteString(tag)
			if !inside {
				cut.WriteString(tag)
			}
			if oracle.Void[n.name] || n.selfCl {
				if n.selfCl && !oracle.Void[n.name] {
					d.feat["self-closed-foreign:"+cat] = true
				}
				continue
			}
			childInside := inside || cat == "skip"
			if cat == "skip" {
				d.hasSkip = true
			}
			walk(n.kids, childInside, append(path, cat))
			b.WriteString("</" + n.name + ">")
			if !inside {
				cut.WriteString("</" + n.name + ">")
			}
			d.tags = append(d.tags, "E:"+n.name)
		}
	}
	walk(forest, false, nil)
	d.src = b.String()
	d.srcCut = cut.String()
	return d
}

// readAsIntended: does the tokenizer find exactly the intended tag sequence, and is it balanced?
func (d *wnDoc) readAsIntended() bool {
	toks := oracle.Tokens(d.src)
	i := 0
	for _, t := range toks {
		if !t.IsTag() {
			continue
		}
		k := "S:"
		switch t.Type {
		case html.EndTagToken:
			k = "E:"
		case html.SelfClosingTagToken:
			k = "X:"
		}
		if i >= len(d.tags) || d.tags[i] != k+t.Name {
			return false
		}
		i++
	}
	if i != len(d.tags) {
		return false
	}
	ok, _ := oracle.Balanced(toks)
	return ok
}

func wnFeatureSig(d *wnDoc) string {
	switch {
	case d.feat["void-skip"]:
		return "doc-has-void-skip-element"
	case d.feat["in-skip:pattern"] || d.feat["in-skip:void-pattern"]:
		return "pattern-element-inside-skipped-region"
	case d.feat["in-skip:skip"]:
		return "nested-skip"
	}
	return "plain"
}

func c08Judge(cs *core.Case, env *Env, d *wnDoc, out string, lc core.LocalCounts) {
	if !d.readAsIntended() {
		// the tokenizer does not read the document as the generator meant it (serialiser noise)
		cs.Skip("tokenizer reads the generated document differently from the intended tree")
		return
	}
	lc["well_nested_inputs"]++
	text := oracle.Text(oracle.Tokens(out))
	for _, m := range d.markers {
		present := strings.Contains(text, m.m)
		if isWsMarker(m.m) {
			lc["whitespace_only_markers_checked"]++
		}
		if m.inside {
			lc["markers_inside_checked"]++
			if present || strings.Contains(out, m.m) {
				w := map[string]interface{}{"policy": spec.Describe(env.Ops), "ops": env.Ops, "input": core.Show(d.src), "output": core.Show(out), "marker": m.m, "path": m.path}
				cs.Violate("C08:leaked:"+wnFeatureSig(d), fmt.Sprintf("marker %s planted inside a disallowed skip-content element (path %s) appears in the output; input=%q output=%q", m.m, m.path, core.Clip(d.src, 400), core.Clip(out, 300)), w)
			}
		} else if m.comment {
			// outside: kept or not is the comment option's business (C01)
			lc["comment_markers_outside_seen"]++
		} else {
			lc["markers_outside_checked"]++
			if !present {
				w := map[string]interface{}{"policy": spec.Describe(env.Ops), "ops": env.Ops, "input": core.Show(d.src), "output": core.Show(out), "marker": m.m, "path": m.path}
				cs.Violate("C08:lost:"+wnFeatureSig(d), fmt.Sprintf("marker %s planted outside every skipped element (path %s) is missing from the output; input=%q output=%q", m.m, m.path, core.Clip(d.src, 400), core.Clip(out, 300)), w)
			}
		}
	}
	if d.hasSkip {
		lc["documents_with_skipped_region"]++
		// markup too: the document with the inside of every skipped element cut out must give the same
		// result (with AddSpaceWhenStrippingTag a dropped tag leaves a space even inside a skipped
		// element, so spaces are not compared there)
		if d.srcCut != d.src {
			out2 := env.Pol.Sanitize(d.srcCut)
			a, b := out, out2
			if env.Spec.AddSpaces {
				a, b = strings.ReplaceAll(a, " ", ""), strings.ReplaceAll(b, " ", "")
			}
			lc["cut_out_comparisons"]++
			if a != b {
				w := map[string]interface{}{"policy": spec.Describe(env.Ops), "ops": env.Ops, "input": core.Show(d.src), "output": core.Show(out), "input_without_skipped_content": core.Show(d.srcCut), "output_without_skipped_content": core.Show(out2)}
				cs.Violate("C08:skipped-content-shows:"+firstDiffToken(a, b)+":"+wnFeatureSig(d), fmt.Sprintf("the content of skipped elements influences the output: with it %q, with it cut out %q; input=%q", core.Clip(out, 300), core.Clip(out2, 300), core.Clip(d.src, 400)), w)
			}
		}
	}
	for f := range d.feat {
		if strings.HasPrefix(f, "self-closed-foreign:") {
			lc["docs:"+f]++
		}
		if strings.HasPrefix(f, "in-skip:") {
			lc["docs:"+f]++
		}
	}
}

func c09Judge(cs *core.Case, env *Env, d *wnDoc, out string, lc core.LocalCounts) {
	if !d.readAsIntended() {
		cs.Skip("tokenizer reads the generated document differently from the intended tree")
		return
	}
	lc["balanced_inputs"]++
	ok, why := oracle.Balanced(oracle.Tokens(out))
	if !ok {
		feat := "plain"
		switch {
		case d.feat["void-dropped"] || d.feat["void-allowed"] || d.feat["void-pattern"] || d.feat["void-skip"]:
			feat = "doc-has-void-element"
		}
		if wnFeatureSig(d) != "plain" {
			feat = wnFeatureSig(d)
		}
		w := map[string]interface{}{"policy": spec.Describe(env.Ops), "ops": env.Ops, "input": core.Show(d.src), "output": core.Show(out), "why": why}
		cs.Violate("C09:unbalanced-output:"+feat, fmt.Sprintf("input is well nested but the output is not (%s); input=%q output=%q", why, core.Clip(d.src, 400), core.Clip(out, 300)), w)
	}
}

// wnFixedPolicies: hand-picked policies that reach each element category.
func wnFixedPolicies() [][]spec.Op {
	base := func(extra ...spec.Op) []spec.Op {
		ops := []spec.Op{{K: spec.KNew}, {K: spec.KAllowElements, Names: []string{"b", "br", "p"}}, {K: spec.KAllowAttrs, Attrs: []string{"href"}, Scope: "els", Names: []string{"a"}},
			{K: spec.KAllowAttrs, Attrs: []string{"src"}, Scope: "els", Names: []string{"img", "iframe"}}, {K: spec.KAllowNoAttrs, Scope: "match", ElRe: `^my-`}, {K: spec.KAllowAttrs, Attrs: []string{"id"}, Scope: "match", ElRe: `^x-[a-z-]+$`}}
		return append(ops, extra...)
	}
	return [][]spec.Op{
		base(),
		base(spec.Op{K: spec.KSwitch, Names: []string{spec.SwAddSpaces}, B: true}),
		base(spec.Op{K: spec.KSkip, Names: []string{"div", "img", "my-x", "hr"}}, spec.Op{K: spec.KKeep, Names: []string{"title", "object"}}),
		{{K: spec.KUGC}},
		{{K: spec.KStrict}},
		{{K: spec.KUGC}, {K: spec.KAllowElsMatching, ElRe: `^my-`}, {K: spec.KSkip, Names: []string{"form", "select"}}},
	}
}

// small exhaustive trees -------------------------------------------------------

var smallAlphabet = []string{"b", "x", "a", "a+href", "img", "br", "object", "my-x", "#text", "frame"}

// enumerate all ordered forests with exactly n nodes over smallAlphabet (void
// and text labels are leaves); calls f for each.
func enumForests(n int, f func([]*wnNode)) {
	// forests(n) = for first tree size k in 1..n: label x forests(k-1) children x forests(n-k) siblings
	var forests func(n int) [][]*wnNode
	memo := map[int][][]*wnNode{}
	forests = func(n int) [][]*wnNode {
		if n == 0 {
			return [][]*wnNode{nil}
		}
		if v, ok := memo[n]; ok {
			return v
		}
		var out [][]*wnNode
		for k := 1; k <= n; k++ {
			for _, lab := range smallAlphabet {
				leaf := lab == "#text" || oracle.Void[lab]
				if leaf && k > 1 {
					continue
				}
				for _, kids := range forests(k - 1) {
					for _, sib := range forests(n - k) {
						nd := &wnNode{name: lab, kids: kids}
						if lab == "#text" {
							nd = &wnNode{}
						}
						if lab == "a+href" { // a kept <a>, next to the bare-dropped one
							nd = &wnNode{name: "a", attrs: [][2]string{{"href", "http://example.org/"}}, kids: kids}
						}
						out = append(out, append([]*wnNode{nd}, sib...))
					}
				}
			}
		}
		memo[n] = out
		return out
	}
	for _, fo := range forests(n) {
		f(fo)
	}
}

// relabel gives every text node a fresh marker (the enumeration shares nodes).
func cloneWithMarkers(ns []*wnNode, mk *int) []*wnNode {
	var out []*wnNode
	for _, n := range ns {
		if n.name == "" {
			*mk++
			out = append(out, &wnNode{text: fmt.Sprintf("zqmk%06d", *mk)})
			continue
		}
		out = append(out, &wnNode{name: n.name, attrs: n.attrs, kids: cloneWithMarkers(n.kids, mk)})
	}
	return out
}

func wnWorkload(ctx *core.Ctx, judge func(cs *core.Case, env *Env, d *wnDoc, out string, lc core.LocalCounts), sampleKind string) {
	nPol := ctx.N(3000, 60000)
	nDoc := ctx.N(200, 500)
	fixed := wnFixedPolicies()
	ctx.Run("wellnested", nPol, func(cs *core.Case) {
		var env *Env
		if cs.Index%3 == 0 {
			env = NewEnv(fixed[(cs.Index/3)%len(fixed)])
		} else {
			ops := spec.RandomOps(cs.R, spec.GenOpts{Styles: cs.Index%5 == 0, ScriptStyle: cs.Index%4 == 1})
			if cs.Index%8 == 1 {
				// AllowUnsafe(true): script and style are ordinary elements (allowed, or disallowed skip elements)
				ops = append(ops, spec.Op{K: spec.KUnsafe, B: true})
			}
			if cs.Index%4 == 2 && lowerOnlyASCII(ops) {
				// names given in upper/mixed case: the builders are documented to be case-insensitive
				env = NewEnvCased(ops, randCase(cs.R))
			} else {
				env = NewEnv(ops)
			}
		}
		names := wnNames(env)
		lc := core.LocalCounts{}
		for i := 0; i < nDoc; i++ {
			mk := 0
			forest := wnTree(cs.R, env, names, 0, 1+cs.R.Intn(4), 1+cs.R.Intn(4), &mk)
			d := env.wnRender(cs.R, forest, cs.R.Intn(2))
			out := SanitizeVia(env.Pol, d.src, i)
			cs.Eval()
			judge(cs, env, &d, out, lc)
			if len(d.markers) > 0 {
				cs.Nontrivial(core.Hash(strings.Join(spec.Describe(env.Ops), ";"), d.src))
			}
			if d.hasSkip && len(d.src) < 250 && cs.Ctx.WantSample(sampleKind) {
				cs.Sample(sampleKind, map[string]interface{}{"policy": spec.Describe(env.Ops), "input": core.Show(d.src), "output": core.Show(out), "markers": fmt.Sprint(d.markers)})
			}
		}
		cs.Flush(lc)
	})
	// deep chains: 65-300 (some 513-1100, one in twelve ~2100) nested elements of one or two kinds (depth thresholds in the drop stack,
	// the skip counter or any per-level bookkeeping)
	ctx.Run("deep-chains", ctx.N(120, 1200), func(cs *core.Case) {
		env := NewEnv(fixed[cs.Index%len(fixed)])
		r := cs.R
		lc := core.LocalCounts{}
		kinds := []string{"a", "b", "x", "object", "my-x", "p", "a+href", "img", "span", "iframe-not"}
		for i := 0; i < 12; i++ {
			depth := 65 + r.Intn(240)
			switch i {
			case 3, 7: // past 512 and 1024
				depth = 513 + r.Intn(600)
			case 11: // past 2048
				depth = 2049 + r.Intn(100)
			}
			k1, k2 := kinds[r.Intn(len(kinds))], kinds[r.Intn(len(kinds))]
			mk := 0
			var build func(d int) []*wnNode
			build = func(d int) []*wnNode {
				mk++
				leaf := &wnNode{text: fmt.Sprintf("zqmk%06d", mk)}
				if d == 0 {
					return []*wnNode{leaf}
				}
				name := k1
				if d%3 == 0 {
					name = k2
				}
				nd := &wnNode{name: name}
				switch name {
				case "a+href":
					nd = &wnNode{name: "a", attrs: [][2]string{{"href", "http://example.org/"}}}
				case "img":
					return append([]*wnNode{{name: "img"}}, build(d-1)...)
				case "iframe-not":
					nd = &wnNode{name: "section"}
				}
				nd.kids = build(d - 1)
				if d%7 == 0 {
					return []*wnNode{leaf, nd}
				}
				if d%5 == 0 || d == depth { // text after the element closes, at every fifth level and at the very end
					return []*wnNode{nd, leaf}
				}
				return []*wnNode{nd}
			}
			d := env.wnRender(r, build(depth), 0)
			out := SanitizeVia(env.Pol, d.src, i)
			cs.Eval()
			lc["deep_chains"]++
			judge(cs, env, &d, out, lc)
			cs.Nontrivial(core.Hash("deep", fmt.Sprint(cs.Index, i)))
		}
		cs.Flush(lc)
	})
	// wide regions: a skipped element (and a dropped, a kept one) holding 17 000 - 70 000 small tokens,
	// text before the end of the region and after it (token-count thresholds in the skip bookkeeping)
	ctx.Run("wide-regions", ctx.N(16, 96), func(cs *core.Case) {
		env := NewEnv(fixed[cs.Index%len(fixed)])
		r := cs.R
		lc := core.LocalCounts{}
		outer := []string{"object", "frameset", "nostyle", "title", "b", "a", "my-x", "iframe"}[cs.Index/len(fixed)%8]
		n := []int{5700, 17000, 23500}[r.Intn(3)]
		mk := 0
		next := func() *wnNode { mk++; return &wnNode{text: fmt.Sprintf("zqmk%06d", mk)} }
		var kids []*wnNode
		if rawTextNames[outer] {
			kids = []*wnNode{{text: strings.Repeat("zq ", n) + "zqmk999999"}}
		} else {
			for i := 0; i < n; i++ {
				switch i % 3 {
				case 0:
					kids = append(kids, &wnNode{name: "b", kids: []*wnNode{{text: "t"}}})
				case 1:
					kids = append(kids, &wnNode{name: "br"})
				default:
					kids = append(kids, &wnNode{text: "u "})
				}
			}
			kids = append(kids, next())
		}
		forest := []*wnNode{next(), {name: outer, kids: kids}, next(), {name: "b", kids: []*wnNode{next()}}}
		d := env.wnRender(r, forest, 0)
		out := SanitizeVia(env.Pol, d.src, cs.Index)
		cs.Eval()
		lc["wide_regions"]++
		judge(cs, env, &d, out, lc)
		cs.Nontrivial(core.Hash("wide", fmt.Sprint(cs.Index)))
		cs.Flush(lc)
	})
	// exhaustive small trees
	maxN := ctx.N(4, 5)
	for pi, ops := range fixed[:4] {
		env := NewEnv(ops)
		for n := 1; n <= maxN; n++ {
			var all [][]*wnNode
			enumForests(n, func(f []*wnNode) { all = append(all, f) })
			const chunk = 2000
			ctx.Run(fmt.Sprintf("small-trees:p%d:n%d", pi, n), (len(all)+chunk-1)/chunk, func(cs *core.Case) {
				lc := core.LocalCounts{}
				for i := cs.Index * chunk; i < (cs.Index+1)*chunk && i < len(all); i++ {
					mk := 0
					d := env.wnRender(cs.R, cloneWithMarkers(all[i], &mk), 0)
					out := SanitizeVia(env.Pol, d.src, i)
					cs.Eval()
					lc["small_trees"]++
					judge(cs, env, &d, out, lc)
					cs.Nontrivial(core.Hash(fmt.Sprint("small", pi), d.src))
				}
				cs.Flush(lc)
			})
		}
	}
}

func runC08(ctx *core.Ctx) {
	ctx.Rule = "well-nested documents (random forests over kept / dropped / bare-dropped / void / skip-content / pattern-matched / raw-text elements, depth <= 5, unique marker word in every text node) under fixed and random policies incl. modified skip sets and element patterns, plus ALL forests of <= N nodes over a 10-label alphabet for 4 fixed policies (exhaustive); oracle: markers planted inside a disallowed skip-content element are absent from the output, markers outside are present; non-trivial = document has at least one marker, distinct by (policy, document)"
	ctx.Assume("script/style are generated too: without AllowUnsafe their body is always a skipped region (C05), text after them is outside", "an element the policy allows is never a skipped region, even when it is dropped for lack of attributes", "void elements have no content, so they never open a skipped region")
	wnWorkload(ctx, c08Judge, "doc")
	ctx.MinNontrivial(int64(ctx.N(20000, 500000)))
	ctx.Floor("markers_inside_checked", 20000)
	ctx.Floor("markers_outside_checked", 20000)
	ctx.Floor("documents_with_skipped_region", 10000)
	ctx.Floor("docs:in-skip:skip", 1000)
	ctx.Floor("docs:in-skip:pattern", 500)
	ctx.Floor("small_trees", 10000)
}

func runC09(ctx *core.Ctx) {
	ctx.Rule = "same well-nested generator as C08 (random forests + all forests of <= N nodes over a 10-label alphabet incl. same-name nesting of kept and bare-dropped elements, void elements inside dropped parents, drops inside skipped regions, pattern-matched bare elements); oracle: the stack-balance checker accepts the re-tokenised output whenever it accepts the input; non-trivial = balanced input with at least one marker, distinct by (policy, document)"
	ctx.Assume("void elements: the HTML void elements plus the obsolete ones the HTML parser treats as void (basefont bgsound frame keygen)", "self-closing syntax on a non-void element is neutral for the checker on both sides")
	wnWorkload(ctx, c09Judge, "doc")
	ctx.MinNontrivial(int64(ctx.N(20000, 500000)))
	ctx.Floor("balanced_inputs", 50000)
	ctx.Floor("small_trees", 10000)
}
