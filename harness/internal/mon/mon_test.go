package mon

import "testing"

func TestHostileContent(t *testing.T) {
	for v, want := range map[string]string{
		"url(http://example.com/a.png)": "", `url("https://example.com/a.png")`: "", "red": "", "url(x.png)": "url-not-plain-http", "url(javascript:alert(1))": "url-not-plain-http",
		"url(http://example.com/a.png) url(//x)": "url-not-plain-http", "a<b": "angle-bracket", `a\b`: "backslash", "expression(alert(1))": "expression", "@import 'x'": "at-rule", "javascript:alert(1)": "script-or-data-reference",
		"url(httpx.png)": "url-not-plain-http",
	} {
		if got := hostileContent(v); got != want {
			t.Errorf("hostileContent(%q) = %q, want %q", v, got, want)
		}
	}
}

func TestWellFormedData(t *testing.T) {
	for k, want := range map[string]bool{"data-x": true, "data-": false, "data-xmlfoo": false, "data-xml": true, "data-a;b": false, "data-adata-b;c": false, "data-é": true, "data": false, "data-foo-bar": true} {
		if got := wellFormedData(k); got != want {
			t.Errorf("wellFormedData(%q) = %v, want %v", k, got, want)
		}
	}
}
