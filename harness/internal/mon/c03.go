package mon

import (
	"fmt"
	"net/url"
	"strings"

	"golang.org/x/net/html"

	"verif/harness/internal/core"
	"verif/harness/internal/gen"
	"verif/harness/internal/oracle"
	"verif/harness/internal/spec"
)

// C03 — URL attributes carry only allowed schemes (or allowed relative URLs).

func init() { Registry["C03"] = runC03 }

type urlPos struct{ el, attr string }

var urlPositions = []urlPos{{"a", "href"}, {"area", "href"}, {"base", "href"}, {"link", "href"},
	{"blockquote", "cite"}, {"del", "cite"}, {"ins", "cite"}, {"q", "cite"},
	{"audio", "src"}, {"embed", "src"}, {"iframe", "src"}, {"img", "src"}, {"input", "src"}, {"source", "src"}, {"track", "src"}, {"video", "src"}, {"script", "src"}}

func schemeClass(s string) string {
	switch s {
	case "javascript", "vbscript", "data", "file", "http", "https", "mailto", "ftp", "livescript", "mhtml", "view-source", "blob", "about", "tel", "ws":
		return s
	}
	return "other"
}

// c03Policy draws a URL policy shape. Every URL element is allowed with its
// URL attribute unpatterned, through one of three rule scopes.
func c03Policy(cs *core.Case) []spec.Op {
	r := cs.R
	ops := []spec.Op{{K: spec.KNew}}
	var els []string
	for _, p := range urlPositions {
		if p.el != "script" {
			els = append(els, p.el)
		}
	}
	switch r.Intn(4) {
	case 0:
		ops = append(ops, spec.Op{K: spec.KAllowAttrs, Attrs: []string{"href", "cite", "src", "x"}, Scope: "global"}, spec.Op{K: spec.KAllowElements, Names: els})
	case 1:
		ops = append(ops, spec.Op{K: spec.KAllowAttrs, Attrs: []string{"href", "cite", "src", "x"}, Scope: "match", ElRe: `^[a-z]+$`})
	default:
		ops = append(ops, spec.Op{K: spec.KAllowAttrs, Attrs: []string{"href", "cite", "src", "x"}, Scope: "els", Names: els})
	}
	if r.Intn(3) == 0 {
		ops = append(ops, spec.Op{K: spec.KAllowAttrs, Attrs: []string{"rel", "target"}, Scope: "global"})
	}
	// how URL checking gets switched on
	sw := func(n string, b bool) spec.Op { return spec.Op{K: spec.KSwitch, Names: []string{n}, B: b} }
	// the first policies of the stream: ONE option that is documented to imply URL checking and
	// nothing else (empty scheme allowlist, relative URLs off): every absolute or relative URL must go
	implying := []spec.Op{sw(spec.SwNoFollow, true), sw(spec.SwNoFollow, false), sw(spec.SwNoFollowFQ, true), sw(spec.SwNoFollowFQ, false), sw(spec.SwNoReferrer, true), sw(spec.SwNoReferrer, false),
		sw(spec.SwNoReferrerFQ, true), sw(spec.SwNoReferrerFQ, false), sw(spec.SwTargetBlank, true), sw(spec.SwTargetBlank, false), sw(spec.SwRelative, false), sw(spec.SwRelative, true),
		{K: spec.KSchemes, Names: []string{"https"}}, {K: spec.KSchemeCustom, Names: []string{"https"}, Check: "host-example"}, {K: spec.KDataURIImages}, {K: spec.KStdURLs}, {K: spec.KImages}, sw(spec.SwParseable, true)}
	// scheme registrations followed by a helper that registers the same scheme (and the reverse)
	pairs := [][]spec.Op{
		{{K: spec.KSchemes, Names: []string{"data", "http"}}, {K: spec.KDataURIImages}},
		{{K: spec.KDataURIImages}, {K: spec.KSchemes, Names: []string{"data"}}},
		{{K: spec.KSchemeCustom, Names: []string{"data"}, Check: "never"}, {K: spec.KDataURIImages}},
		{{K: spec.KDataURIImages}, {K: spec.KDataURIImages}},
		{{K: spec.KSchemes, Names: []string{"mailto", "ftp"}}, {K: spec.KStdURLs}},
		{{K: spec.KSchemeCustom, Names: []string{"http"}, Check: "host-example"}, {K: spec.KStdURLs}},
		{{K: spec.KStdURLs}, {K: spec.KSchemeCustom, Names: []string{"http"}, Check: "host-example"}},
		{{K: spec.KSchemeCustom, Names: []string{"https"}, Check: "never"}, {K: spec.KImages}},
	}
	if j := cs.Index - 2*len(implying); j >= 0 && j < 2*len(pairs) {
		ops = append(ops, pairs[j%len(pairs)]...)
		if j >= len(pairs) {
			ops = append(ops, sw(spec.SwRelative, true))
		}
		return ops
	}
	if cs.Index < 2*len(implying) {
		ops = append(ops, implying[cs.Index%len(implying)])
		if cs.Index >= len(implying) {
			ops = append(ops, spec.Op{K: spec.KRewrite, Check: gen.Pick(r, []string{"proxy", "proxy", "blank"})})
		}
		return ops
	}
	switch r.Intn(10) {
	case 0:
		ops = append(ops, sw(spec.SwParseable, true))
	case 1:
		ops = append(ops, sw(gen.Pick(r, []string{spec.SwNoFollow, spec.SwNoFollowFQ, spec.SwNoReferrer, spec.SwNoReferrerFQ, spec.SwTargetBlank}), r.Intn(2) == 0))
	case 2:
		ops = append(ops, sw(spec.SwRelative, false))
	case 3:
		ops = append(ops, spec.Op{K: spec.KStdURLs})
	case 4:
		// URL checking off: nothing to judge, but the monitor counts it
	default:
		ops = append(ops, sw(spec.SwParseable, true))
	}
	if r.Intn(2) == 0 {
		ops = append(ops, sw(spec.SwRelative, r.Intn(2) == 0))
	}
	// scheme allowlist
	switch r.Intn(9) {
	case 0: // empty allowlist
	case 1:
		ops = append(ops, spec.Op{K: spec.KSchemes, Names: []string{"http"}})
	case 2:
		ops = append(ops, spec.Op{K: spec.KSchemes, Names: []string{"HTTPS", "mailto"}})
	case 3:
		ops = append(ops, spec.Op{K: spec.KSchemes, Names: []string{"http", "https"}}, spec.Op{K: spec.KDataURIImages})
	case 4:
		ops = append(ops, spec.Op{K: spec.KSchemes, Names: []string{"ftp", "data", "x-app"}})
	case 5:
		ops = append(ops, spec.Op{K: spec.KSchemeCustom, Names: []string{"http"}, Check: "host-example"}, spec.Op{K: spec.KSchemeCustom, Names: []string{"http"}, Check: "host-cdn"},
			spec.Op{K: spec.KSchemeCustom, Names: []string{"https"}, Check: gen.Pick(r, []string{"never", "no-query", "always"})})
	case 6:
		ops = append(ops, spec.Op{K: spec.KSchemesMatching, Re: gen.Pick(r, []string{`^x-`, `^(ftp|sftp)$`, `^t`, `^https?$`})}, spec.Op{K: spec.KSchemes, Names: []string{"mailto"}})
	case 7: // custom policy replaced by a later allow-all for the same scheme, and vice versa
		if r.Intn(2) == 0 {
			ops = append(ops, spec.Op{K: spec.KSchemeCustom, Names: []string{"http"}, Check: "never"}, spec.Op{K: spec.KSchemes, Names: []string{"http"}})
		} else {
			ops = append(ops, spec.Op{K: spec.KSchemes, Names: []string{"http"}}, spec.Op{K: spec.KSchemeCustom, Names: []string{"http"}, Check: "never"})
		}
	default:
		ops = append(ops, spec.Op{K: spec.KSchemes, Names: []string{"http", "https", "mailto"}})
	}
	if r.Intn(3) == 0 {
		ops = append(ops, spec.Op{K: spec.KRewrite, Check: "proxy"})
	}
	if r.Intn(6) == 0 {
		ops = append(ops, sw(spec.SwCrossOrigin, true))
	}
	return ops
}

func c03Judge(cs *core.Case, env *Env, pos urlPos, in, out string, lc core.LocalCounts) {
	sp := env.Spec
	for _, t := range oracle.Tokens(out) {
		if t.Type != html.StartTagToken && t.Type != html.SelfClosingTagToken {
			continue
		}
		for _, a := range t.Attrs {
			if !urlPosition(t.Name, a.Key) {
				continue
			}
			lc["surviving_url_attributes"]++
			lc["survived:"+t.Name+"."+a.Key]++
			if !sp.URLCheck {
				lc["survivors_not_judged_url_checking_off"]++
				continue
			}
			v := a.Val
			c := oracle.ClassifyURL(v)
			viol := func(reason, msg string) {
				w := map[string]interface{}{"policy": spec.Describe(env.Ops), "ops": env.Ops, "input": core.Show(in), "output": core.Show(out), "element": t.Name, "attribute": a.Key, "value": core.Show(v)}
				cs.Violate(fmt.Sprintf("C03:%s.%s:%s", t.Name, a.Key, reason), fmt.Sprintf("%s on <%s> survived with value %q: %s; input=%q", a.Key, t.Name, v, msg, core.Clip(in, 300)), w)
			}
			rewritten := false
			if sp.Rewriter != "" && a.Key == "src" {
				if sp.Rewriter == "blank" {
					if v != "" {
						viol("not-rewritten", "the installed src rewriter blanks every URL but the value is not empty")
					}
					rewritten = true
					lc["rewritten_src_seen"]++
				} else if strings.HasPrefix(v, "https://"+spec.ProxyHost+"/p?vmark=1&u=") {
					rewritten = true
					lc["rewritten_src_seen"]++
				} else {
					viol("not-rewritten", "a src rewriter is installed but the value is not the rewriter's result")
				}
			}
			if c.HasWS {
				cls := "whitespace"
				if c.Scheme == "data" {
					cls = "whitespace:data-uri"
				}
				viol(cls, "the value contains whitespace")
			}
			if c.HasControl {
				viol("control", "the value contains a control character")
			}
			if rewritten {
				continue
			}
			if c.Scheme == "" {
				lc["relative_survivors"]++
				if !sp.Relative {
					viol("relative", "relative URLs are not allowed by the policy")
				}
				continue
			}
			lc["absolute_survivors"]++
			u, err := url.Parse(v)
			if err != nil {
				u = nil
			}
			if !sp.SchemeVerdict(c.Scheme, u) {
				viol("scheme:"+schemeClass(c.Scheme), fmt.Sprintf("a browser resolves it to scheme %q, which the policy's allowlist / custom checks do not admit", c.Scheme))
			}
		}
	}
}

func runC03(ctx *core.Ctx) {
	ctx.Rule = "for each drawn URL policy shape (rule scope x how URL checking is switched on x scheme allowlist / custom checks / scheme patterns x relative on/off x rewriter on/off) and each generated URL (obfuscated schemes, C0/space padding, embedded TAB/LF/CR, entity forms via the noisy serialiser, backslashes, opaque/scheme-relative/path-only forms, userinfo, IDN, IPv6, data URIs), ALL 17 (element, attribute) positions are enumerated as single-tag inputs; survivors are classified by a WHATWG-style scheme extractor; non-trivial = a URL attribute survived under URL checking, distinct by (policy, position, url)"
	ctx.Assume("a browser's scheme extraction is approximated per the WHATWG URL standard; custom checks are re-evaluated on net/url's parse of the emitted value", "script[src] is unreachable without AllowUnsafe and is counted as such")
	nPol := ctx.N(1200, 20000)
	nURL := ctx.N(120, 400)
	ctx.Run("url-policies", nPol, func(cs *core.Case) {
		env := NewEnv(c03Policy(cs))
		lc := core.LocalCounts{}
		r := cs.R
		for i := 0; i < nURL; i++ {
			var u string
			switch r.Intn(5) {
			case 0:
				sch := []string{"", "http", "https", "mailto", "ftp", "data", "x-app", "tel"}
				u = gen.CanonicalURL(r, sch[r.Intn(len(sch))])
			default:
				u = gen.HostileURL(r)
			}
			// the first URLs of every policy: one origin first in a form every check approves, then in forms a
			// check that looks beyond the host refuses (a verdict must not be remembered per origin)
			if fixed := []string{"https://example.org/a", "https://example.org/a?b=1", "https://example.org/a#f", "http://example.org/p", "http://example.org/p?x=1#y", "https://cdn.example.net/", "https://cdn.example.net/?q"}; i < len(fixed) {
				u = fixed[i]
			}
			for _, pos := range urlPositions {
				nd := &gen.Node{Name: pos.el, Attrs: [][2]string{{pos.attr, u}}, NoEnd: true}
				if r.Intn(4) == 0 {
					nd.Attrs = append(nd.Attrs, [2]string{"x", "y"})
				}
				if r.Intn(8) == 0 {
					nd.Attrs = append([][2]string{{"rel", "author"}}, nd.Attrs...)
				}
				if r.Intn(10) == 0 {
					nd.Attrs = append(nd.Attrs, [2]string{pos.attr, gen.HostileURL(r)})
				}
				in := gen.Serialize(r, []*gen.Node{nd}, 1+r.Intn(2))
				out := SanitizeVia(env.Pol, in, i)
				cs.Eval()
				lc["positions_driven"]++
				lc["driven:"+pos.el+"."+pos.attr]++
				before := lc["surviving_url_attributes"]
				c03Judge(cs, env, pos, in, out, lc)
				if lc["surviving_url_attributes"] > before && env.Spec.URLCheck {
					cs.Nontrivial(core.Hash(strings.Join(spec.Describe(env.Ops), ";"), pos.el, pos.attr, u))
					if cs.Ctx.WantSample("survivor") {
						cs.Sample("survivor", map[string]interface{}{"policy": spec.Describe(env.Ops), "input": core.Show(in), "output": core.Show(out)})
					}
				} else if out == "" || !strings.Contains(out, pos.attr+"=") {
					lc["url_attributes_removed"]++
					if cs.Ctx.WantSample("removed") && env.Spec.URLCheck {
						cs.Sample("removed", map[string]interface{}{"policy": spec.Describe(env.Ops), "input": core.Show(in), "output": core.Show(out)})
					}
				}
			}
		}
		cs.Flush(lc)
	})
	// Also: URL positions inside whole documents under random policies.
	docWorkload(ctx, spec.GenOpts{}, ctx.N(300, 3000), ctx.N(100, 300), 0, nil, nil, func(cs *core.Case, ob *Obs, lc core.LocalCounts) {
		c03Judge(cs, ob.Env, urlPos{}, ob.In, ob.Out, lc)
	})
	ctx.MinNontrivial(int64(ctx.N(3000, 50000)))
	for _, p := range urlPositions {
		if p.el == "script" {
			continue
		}
		ctx.Floor("survived:"+p.el+"."+p.attr, 100)
	}
	ctx.Floor("rewritten_src_seen", 500)
	ctx.Floor("relative_survivors", 500)
	ctx.Floor("url_attributes_removed", 5000)
}
