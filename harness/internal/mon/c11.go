package mon

import (
	"fmt"
	"strings"

	"golang.org/x/net/html"

	"verif/harness/internal/core"
	"verif/harness/internal/gen"
	"verif/harness/internal/oracle"
	"verif/harness/internal/spec"
)

// C11 — link hardening: nofollow, noreferrer, noopener and _blank are really present.

func init() { Registry["C11"] = runC11 }

var c11Rel = []string{"tag\fnofollow", "a\rb nofollow", "x\fy", "nofollow\f", "\fnoopener", "me\r\nnoreferrer", "stylesheet", "stylesheet nofollow", "icon", "preload", "alternate stylesheet", "canonical", "ugc sponsored", "external", "opener", "Opener", "follow", "referrer", "no opener", "noopener-x", "xnoopener", "opener nofollow", "nofollo", "noreferre", "tag\u00a0", "author\u3000", "me\x0b", "x\u2028", "tag\u0085", "nofollowx\u00a0", "tag ", "tag\t", "nofollow", "noopener", "noreferrer", "nofollow noopener", "NOFOLLOW", "NoReferrer", "NOOPENER", "xnofollowx", "noopenerx", "xnoreferrer", "nofollow-x", "author", "a b",
	"nofollow\tnoreferrer", "nofollow\nx", "nofollow nofollow", "", " ", "external nofollow noopener noreferrer", "noreferrernofollow", "x nofollow", "nofollow\x0bx", "me  noopener ", "nofollownoopener noreferrer", "é"}

var c11Href = []string{"http://localhost/", "https://localhost:8080/x", "http://127.0.0.1/", "http://LOCALHOST/", "//localhost/x", "%zz", "http://a b/", "http://[::1", "http://example.org:bad/", "http://%41example.org/", "http://exa%mple.org/x", ":", "http://example.org/%", "http://example.org/", "https://example.org:8080/a?b=c#d", "//cdn.example.net/x", "/local/path", "path/only", "#frag", "?q=1", "mailto:a@example.org", "HTTP://EXAMPLE.ORG", "http://user@example.org/", "", "ftp://example.org/", "http:/one-slash", "http:opaque", "javascript:alert(1)", "http://[::1]/"}

var c11Target = []string{"_blank", "_self", "_BLANK", "", "frame1", "_blank ", "_top"}

// attribute-name sequences over {href, rel, target} with each name at most twice
func c11Seqs(maxLen int) [][]string {
	var out [][]string
	var rec func(cur []string, cnt map[string]int)
	rec = func(cur []string, cnt map[string]int) {
		out = append(out, append([]string{}, cur...))
		if len(cur) == maxLen {
			return
		}
		for _, k := range []string{"href", "rel", "target"} {
			if cnt[k] < 2 {
				cnt[k]++
				rec(append(cur, k), cnt)
				cnt[k]--
			}
		}
	}
	rec(nil, map[string]int{})
	return out
}

func relLookalike(v string) bool {
	// contains a required word as a substring of another token, or in another letter case
	for _, t := range strings.FieldsFunc(v, func(r rune) bool { return r == ' ' || r == '\t' || r == '\n' || r == '\f' || r == '\r' }) {
		lt := strings.ToLower(t)
		for _, w := range []string{"nofollow", "noreferrer", "noopener"} {
			if strings.Contains(lt, w) && t != w {
				return true
			}
		}
	}
	return false
}

func c11Judge(cs *core.Case, env *Env, in, out string, lc core.LocalCounts) bool {
	sp := env.Spec
	judged := false
	inT := oracle.Tokens(in)
	for _, t := range oracle.Tokens(out) {
		if t.Type != html.StartTagToken && t.Type != html.SelfClosingTagToken {
			continue
		}
		if t.Name != "a" && t.Name != "area" && t.Name != "link" {
			continue
		}
		href, rel, target := "", "", ""
		hasHref, hasRel, hasTarget := false, false, false
		for _, a := range t.Attrs {
			switch a.Key {
			case "href":
				if !hasHref {
					href, hasHref = a.Val, true
				}
			case "rel":
				if !hasRel {
					rel, hasRel = a.Val, true
				}
			case "target":
				if !hasTarget {
					target, hasTarget = a.Val, true
				}
			}
		}
		if !hasHref {
			lc["links_without_href_not_judged"]++
			continue
		}
		judged = true
		lc["links_judged"]++
		hostq, sure := oracle.HostQualified(href)
		if !sure {
			lc["href_hostness_ambiguous_not_judged"]++
		}
		toks := oracle.RelTokens(rel)
		// which input tag an output tag came from is only certain when the input has exactly one
		// start tag of that name; the kept-token and duplicate clauses need that alignment
		sameName := 0
		for _, it := range inT {
			if (it.Type == html.StartTagToken || it.Type == html.SelfClosingTagToken) && it.Name == t.Name {
				sameName++
			}
		}
		aligned := sameName == 1
		// input rel of the same element: the first one the rules accept
		inRel, haveInRel := "", false
		for _, iv := range inputValues(inT, t.Name, "rel") {
			// RulesStrict: only a rel the rules are guaranteed to apply to is "existing" (an explicitly
			// named element ignores pattern rules, so its rel is dropped and nothing has to be kept)
			if spec.Accepts(sp.RulesStrict(t.Name, "rel"), iv) {
				inRel, haveInRel = iv, true
				break
			}
		}
		inToks := oracle.RelTokens(inRel)
		class := "plain"
		if haveInRel && relLookalike(inRel) {
			class = "lookalike-token"
		}
		viol := func(what, msg string) {
			w := map[string]interface{}{"policy": spec.Describe(env.Ops), "ops": env.Ops, "input": core.Show(in), "output": core.Show(out), "element": t.Name, "href": href, "rel": core.Show(rel), "target": target}
			cs.Violate(fmt.Sprintf("C11:%s:%s:%s", t.Name, what, class), msg+fmt.Sprintf("; input=%q output=%q policy=%v", in, out, spec.Describe(env.Ops)[2:]), w)
		}
		need := func(tok string, always, fq bool) {
			if always || (fq && sure && hostq) {
				lc["required_token_checks"]++
				if oracle.HasToken(toks, tok) == 0 {
					viol(tok+":missing", fmt.Sprintf("<%s href=%q> needs rel token %q but the first rel attribute reads %q", t.Name, href, tok, rel))
				}
			}
		}
		need("nofollow", sp.NoFollow, sp.NoFollowFQ)
		need("noreferrer", sp.NoReferrer, sp.NoReferrerFQ)
		if t.Name == "a" {
			if sp.TargetBlank && sure && hostq {
				lc["target_blank_checks"]++
				if !hasTarget || target != "_blank" {
					viol("target:missing", fmt.Sprintf("<a href=%q> is host-qualified but its first target is %q (present=%v)", href, target, hasTarget))
				}
			}
			if sp.AnyLinkOption() && hasTarget && target == "_blank" {
				lc["noopener_checks"]++
				if oracle.HasToken(toks, "noopener") == 0 {
					viol("noopener:missing", fmt.Sprintf("<a target=_blank> needs rel token noopener but the first rel attribute reads %q", rel))
				}
			}
		}
		if sp.AnyLinkOption() && aligned {
			// existing tokens kept
			if haveInRel {
				lc["kept_token_checks"]++
				for _, it := range inToks {
					if oracle.HasToken(toks, it) < 1 {
						viol("input-token-lost", fmt.Sprintf("input rel token %q is missing from the output rel %q", it, rel))
						break
					}
				}
			}
			// required tokens not duplicated
			for _, tok := range []string{"nofollow", "noreferrer", "noopener"} {
				n, ni := oracle.HasToken(toks, tok), oracle.HasToken(inToks, tok)
				if ni < 1 {
					ni = 1
				}
				if n > ni {
					viol(tok+":duplicated", fmt.Sprintf("rel %q carries token %q %d times (input rel %q)", rel, tok, n, inRel))
				}
			}
		}
	}
	return judged
}

func runC11(ctx *core.Ctx) {
	ctx.Rule = "enumerated product: all 32 combinations of the five link options (x URL checking left on | switched off again afterwards) x rel rule (unpatterned | SpaceSeparatedTokens | none | through an element pattern) x target rule (allowed | not) x element (a, area, link) x every sequence of <= L attributes over {href, rel, target} with multiplicity <= 2, values drawn per instance from pools that contain the required words as tokens, as substrings of other tokens, in upper case, duplicated, TAB/LF/NBSP/VT separated; oracle reads the first rel/target/href of each output link as a browser does; non-trivial = an output link carrying an href was judged, distinct by (policy, input)"
	ctx.Assume("host-ness is judged only where RFC 3986 and WHATWG agree", "a without href and target values differing from _blank in case are not judged", "rel tokens are split on ASCII whitespace and compared ASCII-case-insensitively")
	ctx.Exhaustive(false)
	seqs := c11Seqs(ctx.N(4, 5))
	K := ctx.N(10, 24)
	swNames := []string{spec.SwNoFollow, spec.SwNoFollowFQ, spec.SwNoReferrer, spec.SwNoReferrerFQ, spec.SwTargetBlank}
	ctx.Run("options", 32*4*2*2, func(cs *core.Case) {
		mask := cs.Index % 32
		relRule := (cs.Index / 32) % 4
		targetRule := (cs.Index / 128) % 2
		parseableOffAgain := cs.Index/256 == 1 // URL checking switched off after the link options: every href survives as written
		ops := []spec.Op{{K: spec.KNew}, {K: spec.KAllowAttrs, Attrs: []string{"href"}, Scope: "els", Names: []string{"a", "area", "link"}},
			{K: spec.KSchemes, Names: []string{"http", "https", "mailto", "ftp"}}, {K: spec.KSwitch, Names: []string{spec.SwRelative}, B: true}}
		switch relRule {
		case 0:
			ops = append(ops, spec.Op{K: spec.KAllowAttrs, Attrs: []string{"rel"}, Scope: "els", Names: []string{"a", "area", "link"}})
		case 1:
			ops = append(ops, spec.Op{K: spec.KAllowAttrs, Attrs: []string{"rel"}, Re: spec.ReSpaceSepTokens, Scope: "global"})
		case 3:
			// rel (and href) allowed only through an element-pattern rule: the link elements are not named explicitly
			ops = []spec.Op{{K: spec.KNew}, {K: spec.KAllowAttrs, Attrs: []string{"href", "rel"}, Scope: "match", ElRe: `^(a|area|link)$`},
				{K: spec.KSchemes, Names: []string{"http", "https", "mailto", "ftp"}}, {K: spec.KSwitch, Names: []string{spec.SwRelative}, B: true}}
		}
		if targetRule == 1 && relRule == 3 {
			ops = append(ops, spec.Op{K: spec.KAllowAttrs, Attrs: []string{"target"}, Scope: "match", ElRe: `^(a|area|link)$`})
		}
		if targetRule == 1 && relRule != 3 {
			ops = append(ops, spec.Op{K: spec.KAllowAttrs, Attrs: []string{"target"}, Scope: "els", Names: []string{"a", "area", "link"}})
		}
		for b, n := range swNames {
			if mask&(1<<uint(b)) != 0 {
				ops = append(ops, spec.Op{K: spec.KSwitch, Names: []string{n}, B: true})
			}
		}
		if parseableOffAgain {
			ops = append(ops, spec.Op{K: spec.KSwitch, Names: []string{spec.SwParseable}, B: false})
		}
		env := NewEnv(ops)
		lc := core.LocalCounts{}
		r := cs.R
		for _, el := range []string{"a", "area", "link"} {
			for _, seq := range seqs {
				for k := 0; k < K; k++ {
					nd := &gen.Node{Name: el, NoEnd: true}
					for _, key := range seq {
						var v string
						switch key {
						case "href":
							v = c11Href[r.Intn(len(c11Href))]
						case "rel":
							v = c11Rel[r.Intn(len(c11Rel))]
						default:
							v = c11Target[r.Intn(len(c11Target))]
						}
						nd.Attrs = append(nd.Attrs, [2]string{key, v})
					}
					in := gen.Serialize(r, []*gen.Node{nd}, r.Intn(2))
					out := SanitizeVia(env.Pol, in, k)
					cs.Eval()
					lc["tags_driven"]++
					if c11Judge(cs, env, in, out, lc) {
						cs.Nontrivial(core.Hash(fmt.Sprint(cs.Index), in))
						if cs.Ctx.WantSample("link") {
							cs.Sample("link", map[string]interface{}{"policy": spec.Describe(env.Ops), "input": core.Show(in), "output": core.Show(out)})
						}
					}
				}
			}
		}
		cs.Flush(lc)
	})
	// links inside whole documents under random policies with link options
	// option histories: the link options switched on and off in every order, with the helpers that set
	// some of them (AllowStandardURLs, AllowImages) in between; each option reflects its last setting
	ctx.Run("option-histories", ctx.N(400, 4000), func(cs *core.Case) {
		r := cs.R
		ops := []spec.Op{{K: spec.KNew}, {K: spec.KAllowAttrs, Attrs: []string{"href", "rel", "target"}, Scope: "els", Names: []string{"a", "area", "link"}}, {K: spec.KSchemes, Names: []string{"http", "https", "mailto"}}, {K: spec.KSwitch, Names: []string{spec.SwRelative}, B: true}}
		for k := 3 + r.Intn(6); k > 0; k-- {
			switch r.Intn(8) {
			case 0:
				ops = append(ops, spec.Op{K: gen.Pick(r, []string{spec.KStdURLs, spec.KImages})})
			default:
				ops = append(ops, spec.Op{K: spec.KSwitch, Names: []string{swNames[r.Intn(len(swNames))]}, B: r.Intn(3) > 0})
			}
		}
		env := NewEnv(ops)
		lc := core.LocalCounts{}
		for i := 0; i < 40; i++ {
			el := gen.Pick(r, []string{"a", "a", "area", "link"})
			nd := &gen.Node{Name: el, NoEnd: true, Attrs: [][2]string{{"href", gen.Pick(r, []string{"http://example.org/", "https://example.org/a?b=c", "/local", "#frag", "mailto:a@example.org", "//cdn.example.net/x", "path/only"})}}}
			if r.Intn(3) == 0 {
				nd.Attrs = append(nd.Attrs, [2]string{"rel", c11Rel[r.Intn(len(c11Rel))]})
			}
			if r.Intn(3) == 0 {
				nd.Attrs = append(nd.Attrs, [2]string{"target", c11Target[r.Intn(len(c11Target))]})
			}
			in := gen.Serialize(r, []*gen.Node{nd}, 0)
			out := SanitizeVia(env.Pol, in, i)
			cs.Eval()
			lc["option_history_links"]++
			if c11Judge(cs, env, in, out, lc) {
				cs.Nontrivial(core.Hash("hist", strings.Join(spec.Describe(env.Ops), ";"), in))
			}
		}
		cs.Flush(lc)
	})
	ctx.Floor("option_history_links", 10000)
	docWorkload(ctx, spec.GenOpts{}, ctx.N(300, 3000), ctx.N(100, 300), 0, nil, func(cs *core.Case, env *Env, i int) (string, bool) {
		if i%2 == 0 {
			return "", false
		}
		r := cs.R
		el := gen.Pick(r, []string{"a", "area", "link"})
		nd := &gen.Node{Name: el, Attrs: env.Attrs(r, el), Kids: []*gen.Node{{Text: "t"}}}
		nd.Attrs = append(nd.Attrs, [2]string{"href", c11Href[r.Intn(len(c11Href))]})
		if r.Intn(2) == 0 {
			nd.Attrs = append(nd.Attrs, [2]string{"rel", c11Rel[r.Intn(len(c11Rel))]})
		}
		if r.Intn(2) == 0 {
			nd.Attrs = append(nd.Attrs, [2]string{"target", c11Target[r.Intn(len(c11Target))]})
		}
		r.Shuffle(len(nd.Attrs), func(i, j int) { nd.Attrs[i], nd.Attrs[j] = nd.Attrs[j], nd.Attrs[i] })
		return gen.Serialize(r, []*gen.Node{nd}, 1), true
	}, func(cs *core.Case, ob *Obs, lc core.LocalCounts) {
		if ob.Env.Spec.AnyLinkOption() {
			c11Judge(cs, ob.Env, ob.In, ob.Out, lc)
		}
	})
	ctx.MinNontrivial(int64(ctx.N(5000, 100000)))
	ctx.Floor("required_token_checks", 10000)
	ctx.Floor("noopener_checks", 2000)
	ctx.Floor("target_blank_checks", 2000)
	ctx.Floor("kept_token_checks", 5000)
}
