package mon

import (
	"fmt"
	"strings"

	"golang.org/x/net/html"

	"verif/harness/internal/core"
	"verif/harness/internal/oracle"
	"verif/harness/internal/spec"
)

// C01 — only allowlisted elements reach the output.

func init() { Registry["C01"] = runC01 }

func c01Judge(cs *core.Case, ob *Obs, lc core.LocalCounts) {
	sp := ob.Env.Spec
	viol := func(where, what, name, msg string) {
		w := ob.Witness()
		w["offending"] = name
		cs.Violate(fmt.Sprintf("C01:%s:%s:%s", where, what, nameCategory(name)), msg, w)
	}
	ncomm := 0
	for _, t := range ob.OutT {
		switch t.Type {
		case html.StartTagToken, html.EndTagToken, html.SelfClosingTagToken:
			lc["output_tags_judged"]++
			if !sp.ElementAllowed(t.Name) {
				viol("tok", tokKind(t.Type), t.Name, fmt.Sprintf("output contains %s tag <%s> which the policy does not allow; output=%q", tokKind(t.Type), t.Name, core.Clip(ob.Out, 300)))
			}
		case html.CommentToken:
			ncomm++
			lc["output_comments_seen"]++
			if !sp.Comments {
				viol("tok", "comment", "", fmt.Sprintf("output contains a comment but comments are not allowed; output=%q", core.Clip(ob.Out, 300)))
			}
		case html.DoctypeToken:
			viol("tok", "doctype", "", fmt.Sprintf("output contains a doctype; output=%q", core.Clip(ob.Out, 300)))
		}
	}
	if ok, what := tagSubsequence(ob.InT, ob.OutT); !ok {
		viol("align", "tag-not-from-input", "", fmt.Sprintf("output %s has no counterpart in the input token stream (text became markup?); input=%q output=%q", what, core.Clip(ob.In, 300), core.Clip(ob.Out, 300)))
	}
	if ncomm > 0 {
		nin := 0
		for _, t := range ob.InT {
			if t.Type == html.CommentToken {
				nin++
			}
		}
		if ncomm > nin {
			viol("align", "comment-not-from-input", "", fmt.Sprintf("output has %d comments, input only %d", ncomm, nin))
		}
	}
	// O-dom: only needed when the output has markup at all
	if strings.Contains(ob.Out, "<") {
		for _, c := range oracle.Contexts {
			nodes, err := oracle.ParseIn(ob.Out, c)
			if err != nil {
				continue
			}
			lc["dom_parses"]++
			for _, n := range nodes {
				switch n.Type {
				case html.ElementNode:
					lc["dom_elements_judged"]++
					if oracle.Implied[n.Name] || sp.ElementAllowed(n.Name) {
						continue
					}
					if n.Name == "img" && sp.ElementAllowed("image") {
						continue
					}
					viol("dom:"+c, "element", n.Name, fmt.Sprintf("parsing the output inside <%s> yields element <%s> which the policy does not allow; output=%q", c, n.Name, core.Clip(ob.Out, 300)))
				case html.CommentNode:
					if !sp.Comments {
						viol("dom:"+c, "comment", "", fmt.Sprintf("parsing the output inside <%s> yields a comment node; output=%q", c, core.Clip(ob.Out, 300)))
					}
				case html.DoctypeNode:
					viol("dom:"+c, "doctype", "", fmt.Sprintf("parsing the output inside <%s> yields a doctype; output=%q", c, core.Clip(ob.Out, 300)))
				}
			}
		}
	}
	if hasTagLike(ob.In) && ob.Out != "" {
		cs.Nontrivial(core.Hash(strings.Join(spec.Describe(ob.Env.Ops), ";"), ob.In))
		if cs.Ctx.WantSample("doc") && len(ob.In) < 300 {
			cs.Sample("doc", map[string]interface{}{"policy": spec.Describe(ob.Env.Ops), "input": core.Show(ob.In), "output": core.Show(ob.Out)})
		}
	}
}

func runC01(ctx *core.Ctx) {
	ctx.Rule = "random builder-call histories x (noisy generated documents | corpus mutants | verbatim historical vectors), all five entry-point variants rotated; plus every string of exactly L lexical pieces (22-piece alphabet) against 7 fixed policy families (exhaustive for L); oracle = re-tokenise + ParseFragment in 8 contexts against the shadow policy + tag-subsequence alignment; non-trivial = input contains '<' and output is non-empty, distinct by (policy, input)"
	ctx.Assume("x/net/html v0.26.0 is the HTML5 tokenizer / tree builder of the property", "elements the tree builder implies (html head body tbody tr colgroup) are not judged", "AllowUnsafe is never called")
	docWorkload(ctx, spec.GenOpts{Styles: true, NoDefaultCSS: false}, ctx.N(2000, 30000), ctx.N(150, 300), ctx.N(3, 4), familyOrder, nil, c01Judge)
	if ctx.Quick() {
		piecesWorkload(ctx, 4, []string{"pattern-everything", "rawtext"}, c01Judge)
	} else {
		piecesWorkload(ctx, 5, []string{"ugc", "pattern-everything", "rawtext"}, c01Judge)
	}
	// whole-document policies (html, head, body allowed by name, as the html-email tool does): markup
	// declarations in front of and inside a complete document
	whole := [][]spec.Op{spec.CmdHTMLEmailOps(),
		{{K: spec.KNew}, {K: spec.KAllowElements, Names: []string{"html", "head", "body", "title", "p", "b"}}, {K: spec.KAllowAttrs, Attrs: []string{"lang", "id"}, Scope: "global"}},
		{{K: spec.KNew}, {K: spec.KAllowElements, Names: []string{"html", "head", "body", "title", "p", "b", "svg", "math"}}, {K: spec.KAllowNoAttrs, Scope: "els", Names: []string{"html", "svg", "math"}}, {K: spec.KComments}},
		{{K: spec.KNew}, {K: spec.KAllowNoAttrs, Scope: "match", ElRe: `^[a-z]+$`}, {K: spec.KComments}, {K: spec.KSwitch, Names: []string{spec.SwAddSpaces}, B: true}}}
	decls := []string{"<![if !IE]&gt;&lt;script&gt;alert(1)&lt;/script&gt;<![endif]>", "<![if &gt;&lt;img src=x&gt;]>", "<!DOCTYPE html &quot;&gt;&lt;script&gt;alert(1)&lt;/script&gt;>", "<!DOCTYPE html&gt;&lt;b&gt;>", "<?pi &gt;&lt;b&gt;x?>", "<!DOCTYPE html>", "<!doctype html>", "<!DOCTYPE HTML>", "<!DOCTYPE html >", "<!DOCTYPE  html>", "<!DOCTYPE html PUBLIC \"-//W3C//DTD XHTML 1.0 Strict//EN\" \"http://www.w3.org/TR/xhtml1/DTD/xhtml1-strict.dtd\">",
		"<!DOCTYPE html SYSTEM \"about:legacy-compat\">", "<!DOCTYPE>", "<!DOCTYPE svg>", "<!DOCTYPE math>", "<!DOCTYPE html5>", "<!DOCTYPE htm>", "<?xml version=\"1.0\"?>", "<![CDATA[x]]>", "<!ELEMENT x>", "<!-- c -->", "<!>", "<!DOCTYPE html [<!ENTITY x \"y\">]>", "\ufeff<!DOCTYPE html>", "\n<!DOCTYPE html>\n"}
	ctx.Run("whole-documents", len(whole)*ctx.N(40, 400), func(cs *core.Case) {
		env := NewEnv(whole[cs.Index%len(whole)])
		r := cs.R
		lc := core.LocalCounts{}
		for i := 0; i < 40; i++ {
			d := decls[r.Intn(len(decls))]
			body := env.HostileInput(r)
			var in string
			switch r.Intn(5) {
			case 0:
				in = d
			case 1:
				in = d + "<html><head><title>t</title></head><body><p>x</p></body></html>"
			case 2:
				in = d + "<html lang=\"en\"><body>" + body + "</body></html>"
			case 3:
				in = "<html><body>" + body + d + "</body></html>" + d
			default:
				in = d + decls[r.Intn(len(decls))] + body
			}
			ob := observe(env, in, i)
			cs.Eval()
			lc["whole_document_inputs"]++
			c01Judge(cs, ob, lc)
			if ob.Out != "" {
				cs.Nontrivial(core.Hash("whole", fmt.Sprint(cs.Index%len(whole)), in))
			}
		}
		cs.Flush(lc)
	})
	ctx.MinNontrivial(int64(ctx.N(5000, 100000)))
	ctx.Floor("output_tags_judged", 20000)
	ctx.Floor("dom_elements_judged", 20000)
	ctx.Floor("piece_strings", 50000)
}
