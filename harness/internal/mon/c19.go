package mon

import (
	"fmt"
	"regexp"
	"sort"
	"strings"
	"unicode"
	"unicode/utf8"
	"verif/harness/internal/gen"

	"github.com/microcosm-cc/bluemonday"

	"verif/harness/internal/core"
)

// C19 — exported attribute matchers are anchored, closed-alphabet recognisers.
//
// Oracle: hand-written recognisers of the documented forms (no regexp package
// involved). One-directional: matcher accepts ∧ recogniser rejects ⇒ violation.
// Documented examples must be accepted.

type matcherSpec struct {
	name     string
	re       func() *regexp.Regexp
	rec      func(string) bool
	alphabet []string // own characters, one or two per class
	examples []string // documented examples / keywords, all must be accepted
}

// fold maps the two non-ASCII runes that Go's (?i) folds onto ASCII letters
// (U+212A KELVIN SIGN -> k, U+017F LONG S -> s) and lower-cases ASCII.
func foldASCII(s string) (string, bool) {
	var b strings.Builder
	for len(s) > 0 {
		r, n := utf8.DecodeRuneInString(s)
		if r == utf8.RuneError && n <= 1 {
			return "", false
		}
		s = s[n:]
		switch {
		case r == 0x212A:
			b.WriteByte('k')
		case r == 0x017F:
			b.WriteByte('s')
		case r >= 'A' && r <= 'Z':
			b.WriteByte(byte(r) + 32)
		case r < 0x80:
			b.WriteByte(byte(r))
		default:
			return "", false
		}
	}
	return b.String(), true
}

func keywordRec(words ...string) func(string) bool {
	set := map[string]bool{}
	for _, w := range words {
		set[w] = true
	}
	return func(s string) bool {
		f, ok := foldASCII(s)
		return ok && set[f]
	}
}

func isDigit(b byte) bool { return b >= '0' && b <= '9' }

func allDigits(s string) bool {
	if s == "" {
		return false
	}
	for i := 0; i < len(s); i++ {
		if !isDigit(s[i]) {
			return false
		}
	}
	return true
}

// recISO8601: the six W3C NOTE-datetime shapes; as the doc comment lists them,
// with the leniencies that only concern optional parts (separator "T" or
// space, optional "Z", optional numeric offset, 1-6 fraction digits). The
// fraction is introduced by a literal ".".
func recISO8601(s string) bool {
	eat := func(n int) bool { // n digits
		if len(s) < n {
			return false
		}
		for i := 0; i < n; i++ {
			if !isDigit(s[i]) {
				return false
			}
		}
		s = s[n:]
		return true
	}
	lit := func(c byte) bool {
		if len(s) > 0 && s[0] == c {
			s = s[1:]
			return true
		}
		return false
	}
	if !eat(4) {
		return false
	}
	if s == "" {
		return true
	}
	if !lit('-') || !eat(2) {
		return false
	}
	if s == "" {
		return true
	}
	if !lit('-') || !eat(2) {
		return false
	}
	if s == "" {
		return true
	}
	if !(lit('T') || lit(' ')) || !eat(2) || !lit(':') || !eat(2) {
		return false
	}
	if lit(':') {
		if !eat(2) {
			return false
		}
	}
	if lit('.') {
		n := 0
		for len(s) > 0 && isDigit(s[0]) && n < 6 {
			s = s[1:]
			n++
		}
		if n == 0 {
			return false
		}
	}
	lit('Z')
	if s == "" {
		return true
	}
	if !(lit('+') || lit('-')) || !eat(2) || !lit(':') || !eat(2) {
		return false
	}
	return s == ""
}

func recNumber(s string) bool {
	i := 0
	if i < len(s) && (s[i] == '-' || s[i] == '+') {
		i++
	}
	// [0-9]*\.?[0-9]+
	j := i
	for j < len(s) && isDigit(s[j]) {
		j++
	}
	intDigits := j - i
	fracDigits := 0
	k := j
	if k < len(s) && s[k] == '.' {
		k++
		m := k
		for m < len(s) && isDigit(s[m]) {
			m++
		}
		fracDigits = m - k
		if fracDigits == 0 {
			return false
		}
		k = m
	} else if intDigits == 0 {
		return false
	}
	_ = fracDigits
	if k == len(s) {
		return true
	}
	if s[k] != 'e' && s[k] != 'E' {
		return false
	}
	k++
	if k < len(s) && (s[k] == '-' || s[k] == '+') {
		k++
	}
	return allDigits(s[k:])
}

func recRunes(allowEmpty bool, ok func(r rune) bool) func(string) bool {
	return func(s string) bool {
		if s == "" {
			return allowEmpty
		}
		for len(s) > 0 {
			r, n := utf8.DecodeRuneInString(s)
			if r == utf8.RuneError && n <= 1 {
				return false
			}
			if !ok(r) {
				return false
			}
			s = s[n:]
		}
		return true
	}
}

func htmlSpace(r rune) bool { return r == ' ' || r == '\t' || r == '\n' || r == '\f' || r == '\r' }

func c19Matchers() []matcherSpec {
	return []matcherSpec{
		{"CellAlign", func() *regexp.Regexp { return bluemonday.CellAlign }, keywordRec("center", "justify", "left", "right", "char"),
			[]string{"c", "e", "n", "t", "r", "l", "f", "j", "h", "a", "K", "K", "ſ"}, []string{"center", "justify", "left", "right", "char", "CENTER", "Left"}},
		{"CellVerticalAlign", func() *regexp.Regexp { return bluemonday.CellVerticalAlign }, keywordRec("baseline", "bottom", "middle", "top"),
			[]string{"t", "o", "p", "b", "m", "T", "ſ", "s", "e"}, []string{"baseline", "bottom", "middle", "top", "TOP"}},
		{"Direction", func() *regexp.Regexp { return bluemonday.Direction }, keywordRec("rtl", "ltr"),
			[]string{"r", "t", "l", "R", "T", "L"}, []string{"rtl", "ltr", "RTL", "LtR"}},
		{"ImageAlign", func() *regexp.Regexp { return bluemonday.ImageAlign },
			keywordRec("left", "right", "top", "texttop", "middle", "absmiddle", "baseline", "bottom", "absbottom"),
			[]string{"t", "o", "p", "l", "e", "f", "a", "b", "s", "ſ", "x"}, []string{"left", "right", "top", "texttop", "middle", "absmiddle", "baseline", "bottom", "absbottom"}},
		{"Integer", func() *regexp.Regexp { return bluemonday.Integer }, allDigits,
			[]string{"0", "1", "9", "-", "+", ".", "e", "١", "１"}, []string{"0", "1", "42", "0001234567890"}},
		{"ISO8601", func() *regexp.Regexp { return bluemonday.ISO8601 }, recISO8601,
			[]string{"1", "9", "-", ":", "T", " ", ".", "Z", "+", "t", "z"},
			[]string{"1997", "1997-07", "1997-07-16", "1997-07-16T19:20+01:00", "1997-07-16T19:20:30+01:00", "1997-07-16T19:20:30.45+01:00", "1997-07-16T19:20:30Z", "1997-07-16T19:20Z"}},
		{"ListType", func() *regexp.Regexp { return bluemonday.ListType }, keywordRec("circle", "disc", "square", "a", "i", "1"),
			[]string{"a", "A", "i", "I", "1", "d", "s", "c", "ſ", "İ", "ı"}, []string{"circle", "disc", "square", "a", "A", "i", "I", "1"}},
		{"SpaceSeparatedTokens", func() *regexp.Regexp { return bluemonday.SpaceSeparatedTokens },
			recRunes(false, func(r rune) bool {
				return htmlSpace(r) || unicode.IsLetter(r) || unicode.IsNumber(r) || r == '_' || r == '-'
			}),
			[]string{"a", "Z", "0", "_", "-", " ", "\t", "\n", "\f", "\r", "é", "١", "Ⅷ", "½"}, []string{"a", "a b", "nofollow noopener", "foo_bar-1 x", "é", "中文 x"}},
		{"Number", func() *regexp.Regexp { return bluemonday.Number }, recNumber,
			[]string{"0", "7", ".", "-", "+", "e", "E", ","}, []string{"0", "1", "-1", "+1", "1.5", ".5", "-.5", "1e10", "1.5E-3", "0.25"}},
		{"NumberOrPercent", func() *regexp.Regexp { return bluemonday.NumberOrPercent },
			func(s string) bool {
				s = strings.TrimSuffix(s, "%")
				return allDigits(s)
			},
			[]string{"0", "5", "%", ".", "-", "p", "x"}, []string{"0", "100", "100%", "5%"}},
		{"Paragraph", func() *regexp.Regexp { return bluemonday.Paragraph },
			recRunes(true, func(r rune) bool {
				return htmlSpace(r) || unicode.IsLetter(r) || unicode.IsNumber(r) || strings.ContainsRune(`-_',[]!./\()`, r)
			}),
			[]string{"a", "Z", "0", " ", "\n", "-", "_", "'", ",", "[", "]", "!", ".", "/", "\\", "(", ")", "é"},
			[]string{"", "Hello, world!", "it's [ok] (really) a/b\\c_d-e.", "Größe 12"}},
	}
}

// hostile characters appended to every matcher's alphabet
var c19Hostile = []string{"\u2010", "\u2014", "\uff0d", "\u203f", "\uff0e", "\u00a0", "\u2028", "\u0085", "\u200b", "\u3000", "\u0661", "\u2167", "\u01c5", "\uff11", "\u00bd", "<", ">", "\"", "'", "=", "`", "&", ";", "/", "\\", "(", ")", "\x00", "\t", "\n", "\x7f", "\x0b", " ", " ", "\xff", "é", ":", "%", "#", "{", "*", "?", "|", "^", "$"}

var c19Probes = []string{"é", " ", "K", "ſ", " ", "\xff", "\xc0\xaf", "١",
	// Unicode look-alikes of the punctuation, digits and letters the documented forms use (same general
	// category, other code point): a class written as \p{..} instead of the literal admits them
	"\u2010", "\u2013", "\u2014", "\uff0d", "\u2212", "\u203f", "\uff3f", "\uff0e", "\uff0c", "\uff0f", "\uff3c", "\uff08", "\uff09", "\uff3b", "\uff3d", "\uff01", "\u2019", "\uff07", "\uff0b", "\uff05", "\uff1a", "\uff34", "\uff3a", "\u0967", "\u00b2", "\uff10", "\u2160", "\u0131", "\u0130"}

func charClass(s string) string {
	if s == "" {
		return "empty"
	}
	r, n := utf8.DecodeRuneInString(s)
	switch {
	case r == utf8.RuneError && n <= 1:
		return "invalid-utf8"
	case r < 0x20 || r == 0x7f:
		return "control"
	case strings.ContainsRune("<>\"'=`&", r):
		return "html-significant"
	case r < 0x80 && !unicode.IsLetter(r) && !unicode.IsDigit(r):
		return "ascii-punct"
	case r >= 0x80:
		return "non-ascii"
	}
	return "alnum"
}

// firstForeign finds a rune of s that the recogniser never admits anywhere
// (judged by trying it alone and inside each example) -- used only to make the
// signature informative.
func c19Signature(m *matcherSpec, s string) string {
	// Class: which kind of character makes it foreign?
	worst := ""
	for i := 0; i < len(s); {
		r, n := utf8.DecodeRuneInString(s[i:])
		ch := s[i : i+n]
		i += n
		_ = r
		admitted := false
		for _, a := range m.alphabet {
			if a == ch {
				admitted = true
			}
		}
		if !admitted {
			for _, ex := range m.examples {
				if strings.Contains(ex, ch) {
					admitted = true
				}
			}
		}
		if !admitted {
			cl := charClass(ch)
			if worst == "" || cl == "html-significant" || (cl == "control" && worst != "html-significant") {
				worst = cl
			}
		}
	}
	if worst == "" {
		return "C19:" + m.name + ":accepts-malformed"
	}
	return "C19:" + m.name + ":accepts-foreign-char:" + worst
}

func init() { Registry["C19"] = runC19 }

func runC19(ctx *core.Ctx) {
	ctx.Rule = "per matcher: (a) every string of length <= L over the matcher's own characters plus 30 HTML-significant/control/non-ASCII characters (exhaustive), (b) every single (and, sampled in quick / exhaustive in thorough for short examples, double) substitution, insertion and deletion in each documented example over 128 ASCII + 8 non-ASCII probes; oracle = hand-written recogniser; non-trivial = a string the matcher ACCEPTS (distinct by matcher+string), since only accepted strings can refute"
	ctx.Assume("(?i) means Go's Unicode simple folding: U+212A and U+017F count as k and s",
		"whitespace of SpaceSeparatedTokens/Paragraph is HTML ASCII whitespace (TAB LF FF CR SPACE)",
		"ISO8601 leniencies in optional parts (space for T, missing TZD) are not judged; the fraction must start with a literal '.'")
	ctx.Exhaustive(true)
	ms := c19Matchers()
	L := ctx.N(4, 5)
	for mi := range ms {
		m := &ms[mi]
		re := m.re()
		// documented examples must be accepted
		ctx.RunSeq("examples:"+m.name, 1, func(cs *core.Case) {
			for _, ex := range m.examples {
				cs.Eval()
				if !re.MatchString(ex) {
					cs.Violate("C19:"+m.name+":rejects-documented-example", fmt.Sprintf("%s rejects documented example %q", m.name, ex),
						map[string]interface{}{"matcher": m.name, "value": core.Show(ex)})
				}
				if !m.rec(ex) {
					ctx.Inconclusive(fmt.Sprintf("harness recogniser for %s rejects documented example %q", m.name, ex))
				}
			}
		})
		alpha := append([]string{}, m.alphabet...)
		seen := map[string]bool{}
		for _, a := range alpha {
			seen[a] = true
		}
		for _, h := range c19Hostile {
			if !seen[h] {
				alpha = append(alpha, h)
				seen[h] = true
			}
		}
		A := len(alpha)
		// enumerate strings of length <= L; partition on the first two symbols
		parts := A * A
		ctx.Run("enum:"+m.name, parts+1, func(cs *core.Case) {
			lc := core.LocalCounts{}
			check := func(s string) {
				cs.Eval()
				lc["strings_enumerated"]++
				if re.MatchString(s) {
					lc["accepted_by_matcher"]++
					cs.Nontrivial(core.Hash(m.name, s))
					if !m.rec(s) {
						cs.Violate(c19Signature(m, s), fmt.Sprintf("%s accepts %q which is not of its documented form", m.name, s),
							map[string]interface{}{"matcher": m.name, "value": core.Show(s)})
					} else if cs.Ctx.WantSample("accepted:" + m.name) {
						cs.Sample("accepted:"+m.name, map[string]interface{}{"matcher": m.name, "accepted": core.Show(s)})
					}
				}
			}
			if cs.Index == parts { // lengths 0 and 1
				check("")
				for _, a := range alpha {
					check(a)
				}
				cs.Flush(lc)
				return
			}
			p := alpha[cs.Index/A] + alpha[cs.Index%A]
			check(p)
			var rec func(prefix string, d int)
			rec = func(prefix string, d int) {
				if d == 0 {
					return
				}
				for _, a := range alpha {
					s := prefix + a
					check(s)
					rec(s, d-1)
				}
			}
			rec(p, L-2)
			cs.Flush(lc)
		})
		// mutation of documented examples
		edits := []string{}
		for b := 0; b < 128; b++ {
			edits = append(edits, string([]byte{byte(b)}))
		}
		edits = append(edits, c19Probes...)
		for ei, ex := range m.examples {
			ex := ex
			ctx.Run(fmt.Sprintf("mutate:%s:%d", m.name, ei), len(ex)+1, func(cs *core.Case) {
				lc := core.LocalCounts{}
				check := func(s string) {
					cs.Eval()
					lc["mutants_tried"]++
					if re.MatchString(s) {
						lc["accepted_by_matcher"]++
						cs.Nontrivial(core.Hash(m.name, s))
						if !m.rec(s) {
							cs.Violate(c19Signature(m, s), fmt.Sprintf("%s accepts %q (mutant of documented example %q) which is not of its documented form", m.name, s, ex),
								map[string]interface{}{"matcher": m.name, "value": core.Show(s), "example": ex})
						}
					}
				}
				single := func(s string, pos int, f func(string)) {
					// substitution, insertion, deletion at pos
					for _, e := range edits {
						if pos < len(s) {
							f(s[:pos] + e + s[pos+1:])
						}
						f(s[:pos] + e + s[pos:])
					}
					if pos < len(s) {
						f(s[:pos] + s[pos+1:])
					}
				}
				pos := cs.Index
				single(ex, pos, func(s1 string) {
					check(s1)
				})
				// double edits: thorough = all second positions >= pos for examples <= 12 bytes,
				// otherwise (and in quick) 6 PRNG-chosen second positions, restricted to the
				// hostile edit set to keep the count fixed and modest.
				hostileEdits := append(append([]string{}, c19Hostile...), ".", "0", "a", " ")
				second := []int{}
				if !ctx.Quick() && len(ex) <= 12 {
					for q := pos; q <= len(ex)+1; q++ {
						second = append(second, q)
					}
				} else {
					for k := 0; k < 6; k++ {
						second = append(second, cs.R.Intn(len(ex)+2))
					}
				}
				for _, e1 := range hostileEdits {
					var firsts []string
					if pos < len(ex) {
						firsts = append(firsts, ex[:pos]+e1+ex[pos+1:])
					}
					firsts = append(firsts, ex[:pos]+e1+ex[pos:])
					for _, s1 := range firsts {
						for _, q := range second {
							if q > len(s1) {
								continue
							}
							for _, e2 := range hostileEdits {
								if q < len(s1) {
									check(s1[:q] + e2 + s1[q+1:])
								}
								check(s1[:q] + e2 + s1[q:])
							}
						}
					}
				}
				cs.Flush(lc)
			})
		}
	}
	// long strings: documented examples / keywords concatenated or repeated, with 0-4 random edits
	// drawn from the whole alphabet (reaches lengths and positions the exhaustive part cannot)
	for mi := range ms {
		m := &ms[mi]
		re := m.re()
		alpha := append(append([]string{}, m.alphabet...), c19Hostile...)
		ctx.Run("long:"+m.name, ctx.N(64, 512), func(cs *core.Case) {
			r := cs.R
			lc := core.LocalCounts{}
			for k := 0; k < 4000; k++ {
				s := m.examples[r.Intn(len(m.examples))]
				switch r.Intn(4) {
				case 0:
					s += m.examples[r.Intn(len(m.examples))]
				case 1:
					s += alpha[r.Intn(len(alpha))] + m.examples[r.Intn(len(m.examples))]
				case 2:
					s = strings.Repeat(s, 1+r.Intn(3))
				}
				for e := r.Intn(5); e > 0; e-- {
					p := r.Intn(len(s) + 1)
					a := alpha[r.Intn(len(alpha))]
					switch r.Intn(3) {
					case 0:
						s = s[:p] + a + s[p:]
					case 1:
						if p < len(s) {
							s = s[:p] + a + s[p+1:]
						}
					default:
						if p < len(s) {
							s = s[:p] + s[p+1:]
						}
					}
				}
				cs.Eval()
				lc["long_strings_tried"]++
				if re.MatchString(s) {
					lc["accepted_by_matcher"]++
					cs.Nontrivial(core.Hash(m.name, s))
					if !m.rec(s) {
						cs.Violate(c19Signature(m, s), fmt.Sprintf("%s accepts %q which is not of its documented form", m.name, s), map[string]interface{}{"matcher": m.name, "value": core.Show(s)})
					}
				}
			}
			cs.Flush(lc)
		})
	}
	// dictionary: keywords of HTML and CSS (and their upper-case / capitalised spellings) that a matcher
	// might be taught by mistake; longer than anything the exhaustive part reaches
	var dict []string
	{
		seen := map[string]bool{}
		add := func(w string) {
			for _, v := range []string{w, strings.ToUpper(w), strings.Title(w)} {
				if !seen[v] {
					seen[v] = true
					dict = append(dict, v)
				}
			}
		}
		for _, vs := range gen.WellKnownAttrValues {
			for _, v := range vs {
				add(v)
			}
		}
		for _, vs := range gen.WellKnownCSS {
			for _, v := range vs {
				add(v)
			}
		}
		for _, w := range strings.Fields(`decimal lower-alpha upper-alpha lower-roman upper-roman lower-latin upper-latin lower-greek none inherit initial auto start end centre center-left text-top text-bottom abs-middle abs-bottom abs-top
			char justify-all match-parent inside outside true false yes no on off null undefined NaN Infinity -Infinity 1e 1e+ 0x10 1_000 1,000 1.0.0 ٣ ½ ① 2024-02-30 2024-13-01 24:00 2024-02-29T24:00:00Z 2024-02-29t10:00z
			now today P1D PT1H 12:30 12:30:45 +01:00 Z T z t rtl-ltr ltr-rtl bidi vertical horizontal top-left bottom-right flex-start baseline-middle sub super 100px 100em 50%% %50 5e2% +5% -5% 1.% .% alpha roman greek
			circle-open disc-closed square-filled A1 i1 1a aa II iv IV`) {
			add(w)
		}
		sort.Strings(dict)
	}
	for mi := range ms {
		m := &ms[mi]
		re := m.re()
		ctx.RunSeq("dictionary:"+m.name, 1, func(cs *core.Case) {
			lc := core.LocalCounts{}
			for _, w := range dict {
				cs.Eval()
				lc["dictionary_words_tried"]++
				if re.MatchString(w) {
					lc["accepted_by_matcher"]++
					cs.Nontrivial(core.Hash(m.name, w))
					if !m.rec(w) {
						cs.Violate(c19Signature(m, w), fmt.Sprintf("%s accepts %q which is not of its documented form", m.name, w), map[string]interface{}{"matcher": m.name, "value": core.Show(w)})
					}
				}
			}
			cs.Flush(lc)
		})
	}
	// keyword combinations: every concatenation of two prefixes / suffixes (>= 2 bytes) of a matcher's own
	// documented keywords and examples (a pattern refactored into optional parts admits some of them)
	for mi := range ms {
		m := &ms[mi]
		re := m.re()
		ctx.RunSeq("combinations:"+m.name, 1, func(cs *core.Case) {
			seen := map[string]bool{}
			var parts []string
			for _, ex := range m.examples {
				if len(ex) > 12 {
					continue
				}
				for k := 2; k <= len(ex); k++ {
					for _, piece := range []string{ex[:k], ex[len(ex)-k:]} {
						if !seen[piece] {
							seen[piece] = true
							parts = append(parts, piece)
						}
					}
				}
			}
			sort.Strings(parts)
			if len(parts) > 120 {
				parts = parts[:120]
			}
			lc := core.LocalCounts{}
			for _, a := range parts {
				for _, b := range parts {
					for _, w := range []string{a + b, strings.ToUpper(a) + b} {
						cs.Eval()
						lc["keyword_combinations_tried"]++
						if re.MatchString(w) {
							lc["accepted_by_matcher"]++
							cs.Nontrivial(core.Hash(m.name, w))
							if !m.rec(w) {
								cs.Violate(c19Signature(m, w), fmt.Sprintf("%s accepts %q which is not of its documented form", m.name, w), map[string]interface{}{"matcher": m.name, "value": core.Show(w)})
							}
						}
					}
				}
			}
			cs.Flush(lc)
		})
	}
	ctx.Floor("dictionary_words_tried", 10000)
	ctx.Floor("long_strings_tried", 100000)
	ctx.MinNontrivial(200)
	ctx.Floor("strings_enumerated", 100000)
	ctx.Floor("mutants_tried", 10000)
}
