package mon

import (
	"bufio"
	"bytes"
	"fmt"
	"io"
	"os"
	"os/exec"
	"path/filepath"
	"strings"

	"golang.org/x/net/html"

	"verif/harness/internal/core"
	"verif/harness/internal/gen"
	"verif/harness/internal/oracle"
	"verif/harness/internal/spec"
)

// C15 — all entry points agree, independent of chunking and writer type.

func init() { Registry["C15"] = runC15 }

// schedReader replays a read schedule over data and logs every Read.
type schedReader struct {
	data        []byte
	pos         int
	sizes       []int // successive chunk sizes; 0 = zero-length read; exhausted => rest at once
	i           int
	eofWithData bool
	bounds      []int // positions where a chunk ended (strictly inside the data)
	reads       int
}

func (s *schedReader) Read(p []byte) (int, error) {
	s.reads++
	if s.pos >= len(s.data) {
		return 0, io.EOF
	}
	n := len(s.data) - s.pos
	if s.i < len(s.sizes) {
		n = s.sizes[s.i]
		s.i++
		if n > len(s.data)-s.pos {
			n = len(s.data) - s.pos
		}
	}
	if n > len(p) {
		n = len(p)
	}
	copy(p, s.data[s.pos:s.pos+n])
	s.pos += n
	if s.pos < len(s.data) && n > 0 {
		s.bounds = append(s.bounds, s.pos)
	}
	if s.pos >= len(s.data) && s.eofWithData {
		return n, io.EOF
	}
	return n, nil
}

// spanKinds classifies each byte offset of the input by the token it falls in.
func spanKinds(in string) []byte {
	kinds := make([]byte, len(in)+1)
	z := html.NewTokenizer(strings.NewReader(in))
	pos := 0
	for {
		tt := z.Next()
		if tt == html.ErrorToken {
			break
		}
		raw := z.Raw()
		k := byte('x')
		switch tt {
		case html.TextToken:
			k = 't'
		case html.StartTagToken, html.EndTagToken, html.SelfClosingTagToken:
			k = 'g'
		case html.CommentToken:
			k = 'c'
		case html.DoctypeToken:
			k = 'd'
		}
		for i := 0; i < len(raw) && pos+i < len(kinds); i++ {
			kk := k
			if i == 0 {
				kk = 'B' // token boundary
			}
			kinds[pos+i] = kk
		}
		// entity spans inside text
		if tt == html.TextToken {
			s := string(raw)
			for i := 0; i < len(s); i++ {
				if s[i] == '&' {
					for j := i + 1; j < len(s) && j < i+10 && s[j] != ';' && s[j] != ' ' && s[j] != '<'; j++ {
						if pos+j < len(kinds) {
							kinds[pos+j] = 'e'
						}
					}
				}
			}
		}
		pos += len(raw)
	}
	return kinds
}

func c15Schedules(cs *core.Case, in string) []*schedReader {
	r := cs.R
	mk := func(sizes []int, eof bool) *schedReader {
		return &schedReader{data: []byte(in), sizes: sizes, eofWithData: eof}
	}
	var out []*schedReader
	// one byte per read
	ones := make([]int, len(in))
	for i := range ones {
		ones[i] = 1
	}
	out = append(out, mk(ones, false), mk(ones, true))
	// single huge read, with and without EOF
	out = append(out, mk(nil, false), mk(nil, true))
	// random splits, with interleaved zero-length reads (at most 3 in a row)
	for k := 0; k < 4; k++ {
		var sizes []int
		left := len(in)
		for left > 0 {
			n := 1 + r.Intn(1+r.Intn(64))
			if n > left {
				n = left
			}
			if r.Intn(5) == 0 {
				for z := 0; z < 1+r.Intn(3); z++ {
					sizes = append(sizes, 0)
				}
			}
			sizes = append(sizes, n)
			left -= n
		}
		out = append(out, mk(sizes, r.Intn(2) == 0))
	}
	// every two-chunk split position for short inputs
	if len(in) <= 64 {
		for p := 1; p < len(in); p++ {
			out = append(out, mk([]int{p}, p%2 == 0))
		}
	} else {
		for k := 0; k < 8; k++ {
			out = append(out, mk([]int{1 + r.Intn(len(in)-1)}, k%2 == 0))
		}
	}
	return out
}

func runC15(ctx *core.Ctx) {
	ctx.Rule = "random and fixed policies x hostile inputs (incl. > 4 KiB ones that force tokenizer buffer refills) x reader schedules (one byte per read, random splits with interleaved zero-length reads, data delivered together with EOF, single read, EVERY two-chunk split position for inputs <= 64 bytes) x both writer kinds; the reader event log proves the schedule happened; whitespace-only inputs and caller-buffer immutability; freshly built cmd binaries fed through a pipe vs the harness's transcription of their documented policies; non-trivial = a non-blank input compared across all entry points, distinct by (policy, input)"
	ctx.Assume("whitespace-only input is only specified for Sanitize and SanitizeBytes", "100 consecutive zero-length reads are legitimately io.ErrNoProgress; schedules use at most 3 in a row")
	nPol := ctx.N(300, 3000)
	nIn := ctx.N(40, 120)
	ctx.Run("entrypoints", nPol, func(cs *core.Case) {
		var env *Env
		switch cs.Index % 4 {
		case 0:
			env = NewEnv([]spec.Op{{K: spec.KUGC}})
		case 1:
			env = NewEnv(spec.CmdHTMLEmailOps())
		default:
			env = NewEnv(spec.RandomOps(cs.R, spec.GenOpts{Styles: true}))
		}
		lc := core.LocalCounts{}
		r := cs.R
		// results handed out earlier must stay what they were while later calls run (a returned
		// slice or buffer backed by storage the sanitiser reuses would change under the caller)
		var heldBytes []byte
		var heldBuf *bytes.Buffer
		heldWant, heldIn := "", ""
		for i := 0; i < nIn; i++ {
			in := env.HostileInput(r)
			switch r.Intn(12) {
			case 0: // long input: several tokenizer buffer refills
				var b strings.Builder
				for b.Len() < 5000+r.Intn(6000) {
					b.WriteString(env.HostileInput(r))
				}
				in = b.String()
			case 3: // one token longer than the tokenizer's 4096-byte buffer
				n := 4000 + r.Intn(3000)
				switch r.Intn(4) {
				case 0:
					in = "<p>" + strings.Repeat("x", n) + "&amp;" + strings.Repeat("y", 200) + "</p>"
				case 1:
					in = `<a title="` + strings.Repeat("t", n) + `" href="http://example.org/` + strings.Repeat("p", 300) + `">x</a>`
				case 2:
					in = "<!--" + strings.Repeat("c", n) + "--><b>after</b>"
				default:
					in = "<textarea>" + strings.Repeat("<b>", n/3) + "</textarea><i>z</i>"
				}
			case 4: // length exactly 4096 / 8192 (and one byte around it)
				var b strings.Builder
				for b.Len() < 9000 {
					b.WriteString(env.HostileInput(r))
				}
				n := []int{4096, 8192, 4095, 4097, 8191, 8193}[r.Intn(6)]
				in = b.String()[:n]
			case 1: // whitespace only
				in = gen.Pick(r, []string{"\r\u00a0\r\n", "\u00a0\r", "\u2028\r\n", "\u3000\r", "\r\n\u0085", " \r ", "\x0b\r", " ", "\n", "\t \r\n", "  ", "\f", " ", "  ", "\x0b"})
			case 5: // a long run of white space in front of the content (more than any peek window)
				in = strings.Repeat(gen.Pick(r, []string{" ", "\n", " \t", "\r\n"}), []int{511, 512, 513, 600, 4096, 4097, 9000}[r.Intn(7)]) + in
			case 2:
				in = gen.Pick(r, []string{"", "a", "<", "&", "\x00", "<a", "&am"})
			}
			witness := func(extra map[string]interface{}) map[string]interface{} {
				w := map[string]interface{}{"policy": spec.Describe(env.Ops), "ops": env.Ops, "input": core.Show(core.Clip(in, 3000))}
				for k, v := range extra {
					w[k] = v
				}
				return w
			}
			ref := env.Pol.Sanitize(in)
			cs.Eval()
			// caller's buffer
			buf := []byte(in)
			cp := append([]byte{}, buf...)
			gotB := env.Pol.SanitizeBytes(buf)
			cs.Eval()
			{
				// the caller's slice may have spare capacity (a sub-slice of a larger buffer): what lies behind
				// len(b) belongs to the caller too, and the result must not live there
				big := make([]byte, len(in)+96)
				for k := range big {
					big[k] = 0xA5
				}
				copy(big, in)
				sub := big[:len(in)]
				res := env.Pol.SanitizeBytes(sub)
				res2 := env.Pol.SanitizeBytes([]byte("<b>other</b> input &amp; more text to overwrite a shared backing array"))
				_ = res2
				cs.Eval()
				lc["spare_capacity_checks"]++
				for k := len(in); k < len(big); k++ {
					if big[k] != 0xA5 {
						cs.Violate("C15:input-buffer-modified:spare-capacity", fmt.Sprintf("SanitizeBytes wrote into the caller's array behind len(b) (offset %d of a slice with len %d cap %d); input=%q", k, len(in), len(big), core.Clip(in, 200)), witness(nil))
						break
					}
				}
				if string(res) != string(gotB) {
					cs.Violate("C15:earlier-result-changed", fmt.Sprintf("the result of SanitizeBytes on a slice with spare capacity reads %q after a later call, %q was returned for the same input; input=%q", core.Clip(string(res), 200), core.Clip(string(gotB), 200), core.Clip(in, 200)), witness(nil))
				}
			}
			if !bytes.Equal(buf, cp) {
				cs.Violate("C15:input-buffer-modified", fmt.Sprintf("SanitizeBytes modified the caller's buffer; input=%q", core.Clip(in, 200)), witness(nil))
			}
			if strings.TrimSpace(in) == "" {
				lc["blank_inputs"]++
				if ref != in {
					cs.Violate("C15:blank:Sanitize", fmt.Sprintf("Sanitize(%q) = %q, whitespace-only input must be returned unchanged", in, ref), witness(nil))
				}
				if string(gotB) != in {
					cs.Violate("C15:blank:SanitizeBytes", fmt.Sprintf("SanitizeBytes(%q) = %q, whitespace-only input must be returned unchanged", in, gotB), witness(nil))
				}
				continue
			}
			if string(gotB) != ref {
				cs.Violate("C15:differs:SanitizeBytes", fmt.Sprintf("SanitizeBytes differs from Sanitize: %q vs %q; input=%q", core.Clip(string(gotB), 200), core.Clip(ref, 200), core.Clip(in, 200)), witness(nil))
			}
			kinds := spanKinds(in)
			for si, s := range c15Schedules(cs, in) {
				var got string
				entry := ""
				// the schedule is offered through a reader type with a varying set of extra methods
				kind := (si/3 + i) % len(readerKindNames)
				s := s
				var src io.Reader = wrapReader(s, kind, func() int { return len(s.data) - s.pos })
				lc["reader_kind:"+readerKindNames[kind]]++
				switch si % 3 {
				case 0:
					entry = "SanitizeReader"
					got = env.Pol.SanitizeReader(src).String()
				case 1:
					entry = "SanitizeReaderToWriter(bytes.Buffer)"
					var b bytes.Buffer
					if err := env.Pol.SanitizeReaderToWriter(src, &b); err != nil {
						cs.Violate("C15:error:"+entry, fmt.Sprintf("%s returned %v under a fault-free schedule", entry, err), witness(map[string]interface{}{"schedule": fmt.Sprint(s.sizes)}))
					}
					got = b.String()
				default:
					entry = "SanitizeReaderToWriter(plain io.Writer)"
					var b bytes.Buffer
					if err := env.Pol.SanitizeReaderToWriter(src, plainWriter{&b}); err != nil {
						cs.Violate("C15:error:"+entry, fmt.Sprintf("%s returned %v under a fault-free schedule", entry, err), witness(map[string]interface{}{"schedule": fmt.Sprint(s.sizes)}))
					}
					got = b.String()
				}
				cs.Eval()
				lc["schedules_run"]++
				lc["read_calls_logged"] += s.reads
				for _, b := range s.bounds {
					if b < len(kinds) {
						switch kinds[b] {
						case 'g':
							lc["chunk_boundary_inside_tag"]++
						case 'e':
							lc["chunk_boundary_inside_entity"]++
						case 't':
							lc["chunk_boundary_inside_text"]++
						case 'c', 'd':
							lc["chunk_boundary_inside_comment_or_doctype"]++
						case 'B':
							lc["chunk_boundary_at_token_boundary"]++
						}
					}
				}
				if s.pos != len(s.data) {
					cs.Violate("C15:input-not-consumed:"+entry, fmt.Sprintf("%s stopped reading at byte %d of %d", entry, s.pos, len(s.data)), witness(map[string]interface{}{"schedule": fmt.Sprint(s.sizes)}))
				}
				if got != ref {
					w := witness(map[string]interface{}{"schedule": fmt.Sprint(s.sizes), "eof_with_data": s.eofWithData, "got": core.Show(core.Clip(got, 3000)), "want": core.Show(core.Clip(ref, 3000))})
					cs.Violate("C15:differs:"+entry, fmt.Sprintf("%s (source offered as %s) under schedule %v (eof with data: %v) differs from Sanitize: %q vs %q; input=%q", entry, readerKindNames[kind], core.Clip(fmt.Sprint(s.sizes), 80), s.eofWithData, core.Clip(got, 200), core.Clip(ref, 200), core.Clip(in, 200)), w)
				}
			}
			// standard readers that were partly read before they are handed over: only the rest is the input
			{
				pre := gen.Pick(r, []string{"<b>consumed</b>", "x", "<!-- gone -->", "<script>"})
				srcs := []io.Reader{strings.NewReader(pre + in), bytes.NewReader([]byte(pre + in)), bytes.NewBufferString(pre + in), bufio.NewReader(strings.NewReader(pre + in))}
				src := srcs[i%len(srcs)]
				if _, err := io.CopyN(io.Discard, src, int64(len(pre))); err == nil {
					var got string
					if i%2 == 0 {
						got = env.Pol.SanitizeReader(src).String()
					} else {
						var b bytes.Buffer
						_ = env.Pol.SanitizeReaderToWriter(src, &b)
						got = b.String()
					}
					cs.Eval()
					lc["partly_consumed_readers"]++
					if got != ref {
						cs.Violate("C15:differs:partly-consumed-reader", fmt.Sprintf("a standard reader (#%d) of which %d bytes had been read already gives %q, Sanitize of the rest gives %q", i%len(srcs), len(pre), core.Clip(got, 200), core.Clip(ref, 200)), witness(map[string]interface{}{"already_read": pre}))
					}
				}
			}
			if heldBytes != nil {
				lc["held_results_rechecked"]++
				if string(heldBytes) != heldWant || heldBuf.String() != heldWant {
					cs.Violate("C15:earlier-result-changed", fmt.Sprintf("a result returned earlier changed while later calls ran: was %q, SanitizeBytes slice now %q, SanitizeReader buffer now %q", core.Clip(heldWant, 200), core.Clip(string(heldBytes), 200), core.Clip(heldBuf.String(), 200)),
						map[string]interface{}{"policy": spec.Describe(env.Ops), "ops": env.Ops, "input": core.Show(core.Clip(heldIn, 3000))})
				}
			}
			heldBytes, heldBuf, heldWant, heldIn = env.Pol.SanitizeBytes([]byte(in)), env.Pol.SanitizeReader(strings.NewReader(in)), ref, in
			cs.Nontrivial(core.Hash(strings.Join(spec.Describe(env.Ops), ";"), in))
			if cs.Ctx.WantSample("input") && len(in) < 200 {
				cs.Sample("input", map[string]interface{}{"policy": spec.Describe(env.Ops), "input": core.Show(in), "output": core.Show(ref)})
			}
		}
		cs.Flush(lc)
	})

	// giant tokens: one token of 64 KiB .. 1 MiB (text, attribute value, comment, raw text, tag soup),
	// through every reader kind and a few coarse schedules
	ctx.Run("giant-tokens", ctx.N(48, 240), func(cs *core.Case) {
		r := cs.R
		var env *Env
		switch cs.Index % 3 {
		case 0:
			env = NewEnv([]spec.Op{{K: spec.KUGC}, {K: spec.KComments}})
		case 1:
			env = NewEnv(spec.CmdHTMLEmailOps())
		default:
			env = NewEnv([]spec.Op{{K: spec.KNew}, {K: spec.KAllowElements, Names: []string{"p", "b", "textarea"}}, {K: spec.KAllowAttrs, Attrs: []string{"title", "href"}, Scope: "global"}})
		}
		n := []int{65535, 65536, 65537, 70000, 100000, 131072, 131073, 262144 + r.Intn(5000), 1 << 20}[cs.Index/3%9]
		if ctx.Quick() && n > 300000 {
			n = 150000 + r.Intn(50000)
		}
		var in string
		switch r.Intn(6) {
		case 0:
			in = "<p>" + strings.Repeat("x", n) + "</p>"
		case 1:
			in = `<p title="` + strings.Repeat("t", n) + `">x</p>`
		case 2:
			in = "<!--" + strings.Repeat("c", n) + "--><b>after</b>"
		case 3:
			in = "<textarea>" + strings.Repeat("<b>", n/3) + "</textarea><b>z</b>"
		case 4:
			in = "<b>lead</b>" + strings.Repeat("&amp;", n/5) + "<b>tail</b>"
		default:
			in = "<p " + strings.Repeat("a=b ", n/4) + ">x</p>"
		}
		lc := core.LocalCounts{}
		ref := env.Pol.Sanitize(in)
		cs.Eval()
		if got := string(env.Pol.SanitizeBytes([]byte(in))); got != ref {
			cs.Violate("C15:differs:SanitizeBytes", fmt.Sprintf("SanitizeBytes differs from Sanitize on a %d-byte input with one giant token (%d vs %d bytes out)", len(in), len(got), len(ref)), map[string]interface{}{"policy": spec.Describe(env.Ops), "ops": env.Ops, "input_head": core.Show(core.Clip(in, 200)), "input_length": len(in)})
		}
		for kind := range readerKindNames {
			for sched := 0; sched < 3; sched++ {
				var sizes []int
				switch sched {
				case 1:
					for left := len(in); left > 0; left -= 4096 {
						sizes = append(sizes, 4096)
					}
				case 2:
					for left := len(in); left > 0; {
						k := 1 + r.Intn(30000)
						sizes = append(sizes, k)
						left -= k
					}
				}
				s := &schedReader{data: []byte(in), sizes: sizes, eofWithData: sched == 2}
				src := wrapReader(s, kind, func() int { return len(s.data) - s.pos })
				var got, entry string
				if (kind+sched)%2 == 0 {
					entry = "SanitizeReader"
					got = env.Pol.SanitizeReader(src).String()
				} else {
					entry = "SanitizeReaderToWriter(bytes.Buffer)"
					var b bytes.Buffer
					if err := env.Pol.SanitizeReaderToWriter(src, &b); err != nil {
						cs.Violate("C15:error:"+entry, fmt.Sprintf("%s (source offered as %s) returned %v on a fault-free %d-byte input with one giant token", entry, readerKindNames[kind], err, len(in)), map[string]interface{}{"policy": spec.Describe(env.Ops), "ops": env.Ops, "input_head": core.Show(core.Clip(in, 200)), "input_length": len(in)})
					}
					got = b.String()
				}
				cs.Eval()
				lc["giant_token_runs"]++
				if got != ref {
					cs.Violate("C15:differs:"+entry, fmt.Sprintf("%s (source offered as %s) differs from Sanitize on a %d-byte input with one giant token: %d vs %d bytes out", entry, readerKindNames[kind], len(in), len(got), len(ref)),
						map[string]interface{}{"policy": spec.Describe(env.Ops), "ops": env.Ops, "input_head": core.Show(core.Clip(in, 200)), "input_length": len(in), "reader_kind": readerKindNames[kind]})
				}
			}
		}
		// the standard library's own readers
		for k, src := range []io.Reader{strings.NewReader(in), bytes.NewReader([]byte(in)), bytes.NewBufferString(in)} {
			if got := env.Pol.SanitizeReader(src).String(); got != ref {
				cs.Violate("C15:differs:SanitizeReader", fmt.Sprintf("SanitizeReader over standard reader #%d differs from Sanitize on a %d-byte input with one giant token", k, len(in)), map[string]interface{}{"policy": spec.Describe(env.Ops), "ops": env.Ops, "input_head": core.Show(core.Clip(in, 200)), "input_length": len(in)})
			}
			cs.Eval()
		}
		cs.Nontrivial(core.Hash("giant", fmt.Sprint(cs.Index)))
		cs.Flush(lc)
	})
	ctx.Floor("giant_token_runs", 500)

	// cmd tools -------------------------------------------------------------------
	bin := os.Getenv("VERIF_CMD_BIN")
	tools := []struct {
		name string
		ops  []spec.Op
	}{{"sanitise_ugc", spec.CmdUGCOps()}, {"sanitise_html_email", spec.CmdHTMLEmailOps()}}
	if bin == "" {
		ctx.Inconclusive("VERIF_CMD_BIN not set: the cmd tools were not built")
		return
	}
	nCmd := ctx.N(1000, 20000)
	for _, tl := range tools {
		tl := tl
		path := filepath.Join(bin, tl.name)
		if _, err := os.Stat(path); err != nil {
			ctx.Inconclusive("cmd binary missing: " + path)
			continue
		}
		env := NewEnv(tl.ops)
		ctx.Run("cmd:"+tl.name, nCmd, func(cs *core.Case) {
			r := cs.R
			in := env.HostileInput(r)
			if cs.Index < 8 {
				// payloads beyond any round buffer size: 1 MiB + 1, 2 MiB, 5 MiB, 17 MiB (tail marker must arrive)
				size := []int{1<<20 + 1, 2 << 20, 5<<20 + 3, 1<<20 - 1, 17 << 20, 1 << 20, 3 << 20, 9 << 20}[cs.Index]
				if ctx.Quick() && size > 6<<20 {
					size = 1<<20 + 17 + cs.Index
				}
				var b strings.Builder
				b.Grow(size + 4096)
				for b.Len() < size {
					if cs.Index%2 == 0 {
						b.WriteString(env.HostileInput(r))
					} else {
						b.WriteString("<p>paragraph <b>bold</b> &amp; text</p>\n")
					}
					if b.Len()%97 == 0 {
						// removed elements whose bodies contain '>' and '<', so that any re-chunking of stdin can cut inside
						b.WriteString("<script>if (a > b && b < c) { x = \"<b>bold</b>\"; } // " + gen.RandIdent(r, 30) + "</script><style>p > b { color: red } /* " + gen.RandIdent(r, 30) + " */</style>")
					}
				}
				b.WriteString("<p>zqtailmarker</p>")
				in = b.String()
			}
			if cs.Index >= 8 && r.Intn(10) == 0 {
				// transfer-encoding artefacts are content like any other: soft line breaks, encoded words
				pos := r.Intn(len(in) + 1)
				in = in[:pos] + gen.Pick(r, []string{"=\r\n", "a=\r\nb", "<a href=\r\n\"http://example.org/\">x</a>", "=3D", "=\n", "=?utf-8?q?x?=", "text=\r\n<b>b</b>"}) + in[pos:]
			}
			if cs.Index >= 8 && r.Intn(8) == 0 {
				// the end of stdin inside something the sanitiser removes, with and without a final line break
				in += gen.Pick(r, []string{"<script>", "<script>x", "<!-- c", "<iframe>", "<b", "<style>x", "<a href=\"", "<textarea>", "<title>t", "<!DOCTYPE", "<object><p>", "&am", "<![CDATA[x"}) + gen.Pick(r, []string{"\n", "", "\r\n", "\n\n", " \n"})
			}
			switch r.Intn(10) * boolToInt(cs.Index >= 8) {
			case 0:
				if cs.Index >= 8 {
					in = gen.Pick(r, []string{"", " ", "\n", "x\n", "<p>hello</p>\n", "\n\n", "\r", "\r\n", " \r\n\t", "\r\n\r\n", "\f", "\x0b", "\u00a0", "\r\nx"})
				}
			case 1:
				var b strings.Builder
				for b.Len() < 70000 {
					b.WriteString(env.HostileInput(r))
				}
				in = b.String()
			}
			want := env.Pol.Sanitize(in)
			cmd := exec.Command(path)
			stdin, err := cmd.StdinPipe()
			if err != nil {
				ctx.Inconclusive("cannot pipe to " + tl.name)
				return
			}
			var so, se bytes.Buffer
			cmd.Stdout, cmd.Stderr = &so, &se
			if err := cmd.Start(); err != nil {
				ctx.Inconclusive("cannot start " + tl.name + ": " + err.Error())
				return
			}
			// feed through the pipe in varying chunk sizes
			data := []byte(in)
			for len(data) > 0 {
				n := 1 + r.Intn(1+r.Intn(8192))
				if n > len(data) {
					n = len(data)
				}
				if _, err := stdin.Write(data[:n]); err != nil {
					break
				}
				data = data[n:]
			}
			stdin.Close()
			werr := cmd.Wait()
			cs.Eval()
			cs.Count("cmd_runs:"+tl.name, 1)
			cs.Count("cmd_stdin_bytes", len(in))
			if werr != nil {
				cs.Violate("C15:cmd:"+tl.name+":exit", fmt.Sprintf("%s exited with %v, stderr=%q", tl.name, werr, core.Clip(se.String(), 300)), map[string]interface{}{"input": core.Show(core.Clip(in, 3000))})
				return
			}
			if so.String() != want {
				cs.Violate("C15:cmd:"+tl.name+":differs", fmt.Sprintf("%s wrote %q, the library result of its documented policy is %q; input=%q", tl.name, core.Clip(so.String(), 200), core.Clip(want, 200), core.Clip(in, 200)),
					map[string]interface{}{"tool": tl.name, "policy": spec.Describe(tl.ops), "input": core.Show(core.Clip(in, 3000)), "stdout": core.Show(core.Clip(so.String(), 3000)), "want": core.Show(core.Clip(want, 3000))})
			}
			cs.Nontrivial(core.Hash("cmd", tl.name, in))
			if cs.Ctx.WantSample("cmd:"+tl.name) && len(in) < 200 {
				cs.Sample("cmd:"+tl.name, map[string]interface{}{"tool": tl.name, "stdin": core.Show(in), "stdout": core.Show(so.String())})
			}
		})
		ctx.Floor("cmd_runs:"+tl.name, int64(nCmd)*9/10)
	}
	ctx.MinNontrivial(int64(ctx.N(5000, 50000)))
	ctx.Floor("schedules_run", 100000)
	ctx.Floor("chunk_boundary_inside_tag", 10000)
	ctx.Floor("chunk_boundary_inside_entity", 1000)
	ctx.Floor("blank_inputs", 200)
	ctx.Floor("held_results_rechecked", 1000)
	_ = oracle.Tokens
}

func boolToInt(b bool) int {
	if b {
		return 1
	}
	return 0
}
