package mon

import (
	"bytes"
	"errors"
	"fmt"
	"io"
	"os"
	"strings"

	"github.com/microcosm-cc/bluemonday"

	"verif/harness/internal/core"
	"verif/harness/internal/spec"
)

// C16 — I/O failures are reported and the output stays a clean prefix.

func init() { Registry["C16"] = runC16 }

var errInjected = errors.New("vmon: injected I/O fault")

type wEvent struct {
	data   string
	viaStr bool
	failed bool
	n      int
}

// faultWriter logs every call and fails call number failAt.
// mode: 0 permanent (this and every later call fail), 1 transient (only this
// call fails), 2 short write (half of the bytes are accepted, error returned),
// 3 full-length write that still reports an error.
type faultWriter struct {
	events   []wEvent
	accepted bytes.Buffer
	failAt   int
	mode     int
}

func (w *faultWriter) do(p string, viaStr bool) (int, error) {
	idx := len(w.events)
	ev := wEvent{data: p, viaStr: viaStr}
	fail := w.failAt >= 0 && (idx == w.failAt || (w.mode == 0 && idx > w.failAt))
	if !fail {
		w.accepted.WriteString(p)
		ev.n = len(p)
		w.events = append(w.events, ev)
		return len(p), nil
	}
	ev.failed = true
	n := 0
	if w.mode == 2 && idx == w.failAt {
		n = len(p) / 2
		w.accepted.WriteString(p[:n])
	}
	if w.mode == 3 && idx == w.failAt {
		// legal for an io.Writer: everything was taken AND an error is reported (e.g. a flush failed)
		n = len(p)
		w.accepted.WriteString(p)
	}
	ev.n = n
	w.events = append(w.events, ev)
	// the error VALUE varies with the write index: io.EOF from a destination is a failure like any other
	return n, writeErrors[idx%len(writeErrors)]
}

var writeErrors = []error{errInjected, io.EOF, io.ErrUnexpectedEOF, io.ErrClosedPipe, io.ErrShortWrite, os.ErrDeadlineExceeded}

func (w *faultWriter) Write(p []byte) (int, error) { return w.do(string(p), false) }

type faultStringWriter struct{ *faultWriter }

func (w faultStringWriter) WriteString(s string) (int, error) { return w.do(s, true) }

// flushingWriter: a destination that also has Flush() error (like *bufio.Writer); flushing succeeds.
type flushingWriter struct {
	*faultWriter
	flushes *int
}

func (w flushingWriter) WriteString(s string) (int, error) { return w.do(s, true) }
func (w flushingWriter) Flush() error                      { *w.flushes++; return nil }

// flushingBuffer: bytes.Buffer + Flush() error + Close() error + Sync() error, all succeeding.
type flushingBuffer struct{ bytes.Buffer }

func (b *flushingBuffer) Flush() error { return nil }
func (b *flushingBuffer) Close() error { return nil }
func (b *flushingBuffer) Sync() error  { return nil }

func writeClass(s string) string {
	switch {
	case strings.HasPrefix(s, "<!--"):
		return "comment"
	case strings.HasPrefix(s, "</"):
		return "end-tag"
	case strings.HasPrefix(s, "<") && strings.HasSuffix(s, "/>"):
		return "selfclosing-tag"
	case strings.HasPrefix(s, "<"):
		return "start-tag"
	case s == " ":
		return "space-or-text-space"
	}
	return "text"
}

// faultReader delivers data up to offset `at`, then a non-EOF error.
// readErrors: the injected error value varies; standard library sentinels are legitimate
// non-EOF failures too (a truncated gzip stream yields io.ErrUnexpectedEOF, a closed pipe
// io.ErrClosedPipe) and must be reported like any other.
var readErrors = []error{errInjected, io.ErrUnexpectedEOF, io.ErrClosedPipe, io.ErrNoProgress, io.ErrShortBuffer, os.ErrDeadlineExceeded, fmt.Errorf("wrapped: %w", io.EOF)}

type faultReader struct {
	oneShot  bool // the error is reported once (with or without data); later reads go on with the rest of the data, then io.EOF
	reported bool
	err      error
	data     []byte
	at       int
	pos      int
	withData bool // deliver the error together with the last chunk
	chunk    int
	reads    int
}

func (r *faultReader) Read(p []byte) (int, error) {
	r.reads++
	if r.err == nil {
		r.err = errInjected
	}
	if r.oneShot && r.reported {
		if r.pos >= len(r.data) {
			return 0, io.EOF
		}
		n := copy(p, r.data[r.pos:])
		r.pos += n
		return n, nil
	}
	if r.pos >= r.at {
		r.reported = true
		return 0, r.err
	}
	n := r.at - r.pos
	if r.chunk > 0 && n > r.chunk {
		n = r.chunk
	}
	if n > len(p) {
		n = len(p)
	}
	copy(p, r.data[r.pos:r.pos+n])
	r.pos += n
	if r.pos >= r.at && r.withData {
		r.reported = true
		return n, r.err
	}
	return n, nil
}

func c16Policies() [][]spec.Op {
	el := func(n ...string) spec.Op { return spec.Op{K: spec.KAllowElements, Names: n} }
	sp := spec.Op{K: spec.KSwitch, Names: []string{spec.SwAddSpaces}, B: true}
	return [][]spec.Op{
		{{K: spec.KNew}, el("b", "p", "br", "a"), {K: spec.KAllowAttrs, Attrs: []string{"href", "title"}, Scope: "els", Names: []string{"a", "img"}}, {K: spec.KComments}},
		{{K: spec.KNew}, el("b", "p", "br", "a"), {K: spec.KAllowAttrs, Attrs: []string{"href", "title"}, Scope: "els", Names: []string{"a", "img"}}, {K: spec.KComments}, sp},
		{{K: spec.KUGC}, sp},
		{{K: spec.KUGC}, {K: spec.KComments}},
		{{K: spec.KStrict}, sp},
		// AllowUnsafe(true): script/style text is written raw at two further write sites
		{{K: spec.KNew}, el("b", "script", "style"), {K: spec.KAllowAttrs, Attrs: []string{"src", "type"}, Scope: "els", Names: []string{"script", "style"}}, {K: spec.KUnsafe, B: true}, {K: spec.KComments}},
		{{K: spec.KUGC}, el("style"), {K: spec.KUnsafe, B: true}, sp},
		{{K: spec.KNew}, {K: spec.KAllowNoAttrs, Scope: "match", ElRe: `^[a-z]+$`}, {K: spec.KAllowAttrs, Attrs: []string{"x"}, Scope: "match", ElRe: `^[a-z]+$`}, {K: spec.KComments}, sp},
	}
}

func c16Input(cs *core.Case, env *Env) string {
	r := cs.R
	if r.Intn(3) == 0 {
		return env.HostileInput(r)
	}
	// compact inputs that hit every write site
	parts := []string{"<b>", "</b>", "text", "<!-- c -->", "<br/>", "<br>", "<a href=\"http://example.org/\">", "</a>", "<a>", "<x>", "</x>", "<x/>", "<img/>", "<img title=t/>", "<img src=x>", "&amp;", " ", "<iframe>", "</iframe>", "<script>s</script>", "<style>b{}</style>", "<script src=x></script>", "<style>", "</style>", "<p title=q>", "</p>", "<!-->", "<!DOCTYPE html>", "<object>", "</object>", "é"}
	n := 1 + r.Intn(10)
	var b strings.Builder
	for i := 0; i < n; i++ {
		b.WriteString(parts[r.Intn(len(parts))])
	}
	return b.String()
}

func runC16(ctx *core.Ctx) {
	ctx.Level = "fault_enumeration"
	ctx.Rule = "for each driven (policy, input): the fault-free run's write sequence has W calls; EVERY index k < W is faulted in four modes (permanent, transient, short write, full-length write that still returns an error) for both writer kinds (with and without WriteString), and EVERY source byte offset o <= len(input) is faulted in two modes (error alone / error with the last chunk) with two chunkings, for both reader entry points; oracle over the recorded event log: non-nil error, no call after the failed one, accepted bytes are a prefix of the fault-free output; SanitizeReader returns an empty buffer. Non-trivial = a faulted run, distinct by (policy, input, fault)"
	ctx.Assume("exhaustive in the fault position for the driven pairs only", "inputs are capped at 64 (quick) / 400 (thorough) writes")
	ctx.Exhaustive(true)
	pols := c16Policies()
	maxW := ctx.N(64, 400)
	nPairs := ctx.N(4000, 100000)
	ctx.Run("pairs", nPairs, func(cs *core.Case) {
		var env *Env
		if cs.Index%4 == 3 {
			env = NewEnv(spec.RandomOps(cs.R, spec.GenOpts{}))
		} else {
			env = NewEnv(pols[cs.Index%len(pols)])
		}
		in := c16Input(cs, env)
		if len(in) > 2000 {
			in = in[:2000]
		}
		lc := core.LocalCounts{}
		// fault-free reference, with the event log
		ref := &faultWriter{failAt: -1}
		if err := env.Pol.SanitizeReaderToWriter(strings.NewReader(in), faultStringWriter{ref}); err != nil {
			cs.Violate("C16:fault-free-run-errors", fmt.Sprintf("fault-free run returned %v for input %q", err, in), map[string]interface{}{"policy": spec.Describe(env.Ops), "ops": env.Ops, "input": core.Show(in)})
			return
		}
		cs.Eval()
		want := ref.accepted.String()
		W := len(ref.events)
		if W > maxW {
			cs.Skip("more writes than the tier's cap")
			return
		}
		lc["pairs"]++
		lc["fault_free_writes"] += W
		wit := func(extra map[string]interface{}) map[string]interface{} {
			w := map[string]interface{}{"policy": spec.Describe(env.Ops), "ops": env.Ops, "input": core.Show(in), "fault_free_output": core.Show(want), "fault_free_writes": W}
			for k, v := range extra {
				w[k] = v
			}
			return w
		}
		for k := 0; k < W; k++ {
			cls := writeClass(ref.events[k].data)
			for mode := 0; mode < 4; mode++ {
				for kind := 0; kind < 3; kind++ {
					fw := &faultWriter{failAt: k, mode: mode}
					var w io.Writer = fw
					if kind == 0 {
						w = faultStringWriter{fw}
					}
					if kind == 2 {
						if (k+mode)%3 != 0 { // a third of the faults also through a destination that can be flushed
							continue
						}
						w = flushingWriter{fw, new(int)}
					}
					err := env.Pol.SanitizeReaderToWriter(strings.NewReader(in), w)
					cs.Eval()
					lc["writer_faults_injected"]++
					lc["faulted_write:"+cls]++
					if env.Spec.Unsafe && cls == "text" {
						lc["faulted_write:text-under-allow-unsafe"]++
					}
					modeName := []string{"permanent", "transient", "short-write", "full-write-with-error"}[mode]
					sigSfx := cls + ":" + modeName
					if len(fw.events) <= k {
						// the write sequence changed under the fault: the faulted call never happened
						cs.Violate("C16:write-sequence-nondeterministic", fmt.Sprintf("write %d was never issued in the faulted run", k), wit(map[string]interface{}{"k": k}))
						continue
					}
					if err == nil {
						cs.Violate("C16:nil-error:"+sigSfx, fmt.Sprintf("write #%d (%s %q) failed (%s) but SanitizeReaderToWriter returned nil; input=%q", k, cls, ref.events[k].data, modeName, core.Clip(in, 200)), wit(map[string]interface{}{"k": k, "mode": modeName, "write": ref.events[k].data}))
					}
					if len(fw.events) > k+1 {
						cs.Violate("C16:write-after-failure:"+sigSfx, fmt.Sprintf("write #%d (%s %q) failed (%s) yet %d further write calls followed (next: %q); input=%q", k, cls, ref.events[k].data, modeName, len(fw.events)-k-1, fw.events[k+1].data, core.Clip(in, 200)), wit(map[string]interface{}{"k": k, "mode": modeName, "write": ref.events[k].data}))
					}
					if got := fw.accepted.String(); !strings.HasPrefix(want, got) {
						cs.Violate("C16:not-a-prefix:"+sigSfx, fmt.Sprintf("after failing write #%d the accepted bytes %q are not a prefix of the fault-free output %q", k, core.Clip(got, 200), core.Clip(want, 200)), wit(map[string]interface{}{"k": k, "mode": modeName, "accepted": core.Show(got)}))
					}
					cs.Nontrivial(core.Hash(fmt.Sprint(cs.Index), in, fmt.Sprint("w", k, mode, kind)))
				}
			}
		}
		// reader faults at every offset
		for o := 0; o <= len(in); o++ {
			for v := 0; v < 4; v++ {
				fr := &faultReader{data: []byte(in), at: o, withData: v&1 == 1, err: readErrors[(o+v)%len(readErrors)]}
				if v&2 != 0 {
					fr.chunk = 1 + cs.R.Intn(7)
				}
				fr.oneShot = (o+v)%3 == 0 // a transient failure: the source would go on if asked again
				var buf flushingBuffer
				// the failing source is offered through reader types with extra methods (Len, WriteTo, ReadByte ...),
				// the destination through writer types with and without WriteString / Flush / Close / Sync
				kind := (o + v/2 + cs.Index) % len(readerKindNames)
				var dst io.Writer = &buf
				switch (o + v) % 3 {
				case 1:
					dst = &buf.Buffer
				case 2:
					dst = plainWriter{&buf.Buffer}
				}
				err := env.Pol.SanitizeReaderToWriter(wrapReader(fr, kind, func() int { return len(fr.data) - fr.pos }), dst)
				cs.Eval()
				lc["reader_faults_injected"]++
				lc["reader_fault_source_kind:"+readerKindNames[kind]]++
				if err == nil {
					cs.Violate("C16:reader-fault:nil-error:SanitizeReaderToWriter", fmt.Sprintf("source (offered as %s) failed at offset %d (with data: %v) but SanitizeReaderToWriter returned nil; input=%q", readerKindNames[kind], o, fr.withData, core.Clip(in, 200)), wit(map[string]interface{}{"offset": o, "with_data": fr.withData, "reader_kind": readerKindNames[kind]}))
				}
				if got := buf.String(); !strings.HasPrefix(want, got) && o == len(in) {
					// with the complete input delivered before the error, what was written must be a prefix
					cs.Violate("C16:reader-fault:not-a-prefix", fmt.Sprintf("source failed after the whole input; written %q is not a prefix of %q", core.Clip(got, 200), core.Clip(want, 200)), wit(map[string]interface{}{"offset": o}))
				}
				fr2 := &faultReader{data: []byte(in), at: o, withData: v&1 == 1, chunk: fr.chunk, err: fr.err, oneShot: fr.oneShot}
				b := env.Pol.SanitizeReader(wrapReader(fr2, kind+1, func() int { return len(fr2.data) - fr2.pos }))
				cs.Eval()
				if b == nil || b.Len() != 0 {
					got := ""
					if b != nil {
						got = b.String()
					}
					cs.Violate("C16:reader-fault:nonempty-buffer:SanitizeReader", fmt.Sprintf("source failed at offset %d but SanitizeReader returned %q", o, core.Clip(got, 200)), wit(map[string]interface{}{"offset": o}))
				}
				cs.Nontrivial(core.Hash(fmt.Sprint(cs.Index), in, fmt.Sprint("r", o, v)))
			}
		}
		// both sides fail: the source at a random offset and the destination at a random write
		for k := 0; k < 6 && W > 0; k++ {
			fr := &faultReader{data: []byte(in), at: cs.R.Intn(len(in) + 1), withData: k%2 == 0}
			fw := &faultWriter{failAt: cs.R.Intn(W), mode: cs.R.Intn(4)}
			err := env.Pol.SanitizeReaderToWriter(wrapReader(fr, k+cs.Index, func() int { return len(fr.data) - fr.pos }), faultStringWriter{fw})
			cs.Eval()
			lc["double_faults_injected"]++
			if err == nil {
				cs.Violate("C16:double-fault:nil-error", fmt.Sprintf("source failing at offset %d and destination failing at write %d: SanitizeReaderToWriter returned nil; input=%q", fr.at, fw.failAt, core.Clip(in, 200)), wit(map[string]interface{}{"offset": fr.at, "k": fw.failAt}))
			}
			// (a prefix of the fault-free output is only owed when the source delivered the whole input)
			if got := fw.accepted.String(); fr.at == len(in) && !strings.HasPrefix(want, got) {
				cs.Violate("C16:double-fault:not-a-prefix", fmt.Sprintf("source failing at offset %d and destination failing at write %d: accepted bytes are not a prefix of the fault-free output", fr.at, fw.failAt), wit(map[string]interface{}{"offset": fr.at, "k": fw.failAt, "accepted": core.Show(got)}))
			}
		}
		if cs.Ctx.WantSample("pair") && W > 3 && len(in) < 200 {
			var evs []string
			for _, e := range ref.events {
				evs = append(evs, e.data)
			}
			cs.Sample("pair", map[string]interface{}{"policy": spec.Describe(env.Ops), "input": core.Show(in), "write_events": evs, "writer_faults": W * 6, "reader_faults": (len(in) + 1) * 4})
		}
		cs.Flush(lc)
	})
	// real *os.File destinations that cannot be written: /dev/full, a closed file, a file opened read-only,
	// a pipe whose reading end is gone
	ctx.Run("os-file-destinations", ctx.N(200, 2000), func(cs *core.Case) {
		env := NewEnv(pols[cs.Index%len(pols)])
		in := c16Input(cs, env)
		if cs.Index%7 == 0 { // more than any 4 KiB / 64 KiB buffer would hold back
			var b strings.Builder
			for b.Len() < 70000 {
				b.WriteString(c16Input(cs, env))
			}
			in = b.String()
		}
		var ref bytes.Buffer
		if err := env.Pol.SanitizeReaderToWriter(strings.NewReader(in), &ref); err != nil || ref.Len() == 0 {
			return
		}
		lc := core.LocalCounts{}
		dests := map[string]func() (*os.File, func()){
			"dev-full": func() (*os.File, func()) {
				f, err := os.OpenFile("/dev/full", os.O_WRONLY, 0)
				if err != nil {
					return nil, nil
				}
				return f, func() { f.Close() }
			},
			"closed-file": func() (*os.File, func()) {
				f, err := os.CreateTemp("", "vmon-c16-*")
				if err != nil {
					return nil, nil
				}
				name := f.Name()
				f.Close()
				return f, func() { os.Remove(name) }
			},
			"read-only-file": func() (*os.File, func()) {
				f, err := os.Open("/dev/null")
				if err != nil {
					return nil, nil
				}
				return f, func() { f.Close() }
			},
			"pipe-without-reader": func() (*os.File, func()) {
				pr, pw, err := os.Pipe()
				if err != nil {
					return nil, nil
				}
				pr.Close()
				return pw, func() { pw.Close() }
			},
		}
		for _, name := range []string{"dev-full", "closed-file", "read-only-file", "pipe-without-reader"} {
			f, done := dests[name]()
			if f == nil {
				lc["os_file_destination_unavailable:"+name]++
				continue
			}
			err := env.Pol.SanitizeReaderToWriter(strings.NewReader(in), f)
			done()
			cs.Eval()
			lc["os_file_destination_faults"]++
			if err == nil {
				cs.Violate("C16:nil-error:os-file:"+name, fmt.Sprintf("the destination (*os.File, %s) cannot be written, %d bytes of output were due, but SanitizeReaderToWriter returned nil; input=%q", name, ref.Len(), core.Clip(in, 200)),
					map[string]interface{}{"policy": spec.Describe(env.Ops), "ops": env.Ops, "input": core.Show(core.Clip(in, 3000)), "destination": name, "output_bytes_due": ref.Len()})
			}
		}
		cs.Nontrivial(core.Hash("osfile", fmt.Sprint(cs.Index), in))
		cs.Flush(lc)
	})
	ctx.Floor("os_file_destination_faults", 400)
	// giant tokens: single writes of 33 KiB - 300 KiB (a writer wrapper that splits or buffers large
	// writes has its own failure handling); writer faults at every write index, per writer kind
	ctx.Run("giant-token-write-faults", ctx.N(48, 480), func(cs *core.Case) {
		env := NewEnv(pols[cs.Index%len(pols)])
		r := cs.R
		n := []int{33000, 40000, 65537, 70000, 100000, 131073, 200000, 300000}[cs.Index/len(pols)%8]
		var in string
		switch r.Intn(4) {
		case 0:
			in = "<p>" + strings.Repeat("x", n) + "</p><b>tail</b>"
		case 1:
			in = "<b>lead</b><!--" + strings.Repeat("c", n) + "--><b>tail</b>"
		case 2:
			in = `<a title="` + strings.Repeat("t", n) + `" href="http://example.org/">x</a>` + strings.Repeat("y", n/2) + "<b>tail</b>"
		default:
			in = strings.Repeat("&amp;z", n/6) + "<p>" + strings.Repeat("w", n) + "</p>"
		}
		lc := core.LocalCounts{}
		for kind := 0; kind < 2; kind++ {
			mkw := func(fw *faultWriter) io.Writer {
				if kind == 0 {
					return faultStringWriter{fw}
				}
				return fw
			}
			ref := &faultWriter{failAt: -1}
			if err := env.Pol.SanitizeReaderToWriter(strings.NewReader(in), mkw(ref)); err != nil {
				cs.Violate("C16:fault-free-run-errors", fmt.Sprintf("fault-free run returned %v for a %d-byte input with a giant token", err, len(in)), map[string]interface{}{"policy": spec.Describe(env.Ops), "ops": env.Ops, "input_head": core.Show(core.Clip(in, 200)), "input_length": len(in)})
				continue
			}
			want := ref.accepted.String()
			W := len(ref.events)
			if W > 60 {
				W = 60
			}
			for k := 0; k < W; k++ {
				for mode := 0; mode < 4; mode++ {
					fw := &faultWriter{failAt: k, mode: mode}
					err := env.Pol.SanitizeReaderToWriter(strings.NewReader(in), mkw(fw))
					cs.Eval()
					lc["giant_token_writer_faults"]++
					if len(ref.events[k].data) > 32768 {
						lc["giant_token_writer_faults_on_a_write_over_32KiB"]++
					}
					modeName := []string{"permanent", "transient", "short-write", "full-write-with-error"}[mode]
					wit := map[string]interface{}{"policy": spec.Describe(env.Ops), "ops": env.Ops, "input_head": core.Show(core.Clip(in, 200)), "input_length": len(in), "k": k, "mode": modeName, "writer_has_WriteString": kind == 0, "write_length": len(ref.events[k].data)}
					if err == nil {
						cs.Violate("C16:nil-error:giant:"+modeName, fmt.Sprintf("write #%d (%d bytes) failed (%s) but SanitizeReaderToWriter returned nil; %d-byte input with a giant token", k, len(ref.events[k].data), modeName, len(in)), wit)
					}
					if len(fw.events) > k+1 {
						cs.Violate("C16:write-after-failure:giant:"+modeName, fmt.Sprintf("write #%d (%d bytes) failed (%s) yet %d further write calls followed; %d-byte input with a giant token", k, len(ref.events[k].data), modeName, len(fw.events)-k-1, len(in)), wit)
					}
					if got := fw.accepted.String(); !strings.HasPrefix(want, got) {
						cs.Violate("C16:not-a-prefix:giant:"+modeName, fmt.Sprintf("after failing write #%d the %d accepted bytes are not a prefix of the fault-free output; %d-byte input with a giant token", k, len(got), len(in)), wit)
					}
				}
			}
		}
		cs.Nontrivial(core.Hash("giant-w", fmt.Sprint(cs.Index)))
		cs.Flush(lc)
	})
	ctx.Floor("giant_token_writer_faults_on_a_write_over_32KiB", 300)
	// reader faults around the tokenizer's 4096-byte buffer boundaries (long inputs; only offsets near
	// multiples of 4096 and the last bytes are faulted, writer faults are left to the short inputs)
	ctx.Run("reader-faults-at-buffer-boundaries", ctx.N(64, 1200), func(cs *core.Case) {
		env := NewEnv(pols[cs.Index%len(pols)])
		var b strings.Builder
		for b.Len() < 4200+cs.R.Intn(9000) {
			b.WriteString(c16Input(cs, env))
		}
		in := b.String()
		want := env.Pol.Sanitize(in)
		lc := core.LocalCounts{}
		var offs []int
		for base := 4096; base <= len(in)+8; base += 4096 {
			for d := -6; d <= 6; d++ {
				if o := base + d; o >= 0 && o <= len(in) {
					offs = append(offs, o)
				}
			}
		}
		offs = append(offs, 0, 1, len(in)-1, len(in))
		for _, o := range offs {
			for v := 0; v < 4; v++ {
				fr := &faultReader{data: []byte(in), at: o, withData: v&1 == 1, err: readErrors[(o+v)%len(readErrors)]}
				if v&2 != 0 {
					fr.chunk = 512 + cs.R.Intn(4096)
				}
				var buf bytes.Buffer
				kind := (o + v + cs.Index) % len(readerKindNames)
				err := env.Pol.SanitizeReaderToWriter(wrapReader(fr, kind, func() int { return len(fr.data) - fr.pos }), &buf)
				cs.Eval()
				lc["reader_faults_near_buffer_boundary"]++
				if err == nil {
					cs.Violate("C16:reader-fault:nil-error:SanitizeReaderToWriter", fmt.Sprintf("source (%d bytes) failed at offset %d (with data: %v, chunk %d) but SanitizeReaderToWriter returned nil", len(in), o, fr.withData, fr.chunk),
						map[string]interface{}{"policy": spec.Describe(env.Ops), "ops": env.Ops, "input": core.Show(core.Clip(in, 3000)), "offset": o, "input_length": len(in)})
				}
				if o == len(in) && !strings.HasPrefix(want, buf.String()) {
					cs.Violate("C16:reader-fault:not-a-prefix", fmt.Sprintf("source failed after the whole %d-byte input; what was written is not a prefix of the fault-free output", len(in)), map[string]interface{}{"policy": spec.Describe(env.Ops), "ops": env.Ops, "input": core.Show(core.Clip(in, 3000))})
				}
				fr2 := &faultReader{data: []byte(in), at: o, withData: v&1 == 1, chunk: fr.chunk, err: fr.err}
				if bb := env.Pol.SanitizeReader(wrapReader(fr2, kind+2, func() int { return len(fr2.data) - fr2.pos })); bb == nil || bb.Len() != 0 {
					cs.Violate("C16:reader-fault:nonempty-buffer:SanitizeReader", fmt.Sprintf("source (%d bytes) failed at offset %d but SanitizeReader returned a non-empty buffer", len(in), o),
						map[string]interface{}{"policy": spec.Describe(env.Ops), "ops": env.Ops, "input": core.Show(core.Clip(in, 3000)), "offset": o})
				}
				cs.Nontrivial(core.Hash("rb", fmt.Sprint(cs.Index), fmt.Sprint(o, v)))
			}
		}
		cs.Flush(lc)
	})
	ctx.Floor("reader_faults_near_buffer_boundary", 2000)
	ctx.MinNontrivial(int64(ctx.N(100000, 1000000)))
	for _, c := range []string{"comment", "end-tag", "selfclosing-tag", "start-tag", "space-or-text-space", "text"} {
		ctx.Floor("faulted_write:"+c, 1000)
	}
	ctx.Floor("reader_faults_injected", 50000)
	ctx.Floor("faulted_write:text-under-allow-unsafe", 500)
	_ = bluemonday.NewPolicy
}
