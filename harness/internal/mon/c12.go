package mon

import (
	"fmt"
	"strings"

	"golang.org/x/net/html"

	"verif/harness/internal/core"
	"verif/harness/internal/gen"
	"verif/harness/internal/oracle"
	"verif/harness/internal/spec"
)

// C12 — forced attributes: crossorigin=anonymous and iframe sandbox.

func init() { Registry["C12"] = runC12 }

var c12CrossVals = []string{"anonymous", "use-credentials", "", "ANONYMOUS", "x", " anonymous", "anonymous anonymous", "\"><script>"}

func c12SandboxVal(r interface{ Intn(int) int }) string {
	pool := append(append([]string{}, spec.SandboxNames...), "allow-everything", "ALLOW-SCRIPTS", "Allow-Forms", "x", "allow-scripts;", "allow-", "")
	n := r.Intn(6)
	var toks []string
	for i := 0; i < n; i++ {
		t := pool[r.Intn(len(pool))]
		toks = append(toks, t)
		if r.Intn(5) == 0 {
			toks = append(toks, t) // duplicate
		}
	}
	sep := []string{" ", "  ", "\t", "\n", " \t ", "\f", "\r\n", "\u00a0", "\v", "\u2003", " \u00a0"}[r.Intn(11)]
	v := strings.Join(toks, sep)
	if r.Intn(6) == 0 {
		v = " " + v + " "
	}
	return v
}

func c12Judge(cs *core.Case, env *Env, in, out string, lc core.LocalCounts) bool {
	sp := env.Spec
	judged := false
	for _, t := range oracle.Tokens(out) {
		if t.Type != html.StartTagToken && t.Type != html.SelfClosingTagToken || len(t.Attrs) == 0 {
			continue
		}
		viol := func(what, msg string) {
			w := map[string]interface{}{"policy": spec.Describe(env.Ops), "ops": env.Ops, "input": core.Show(in), "output": core.Show(out), "element": t.Name}
			cs.Violate("C12:"+t.Name+":"+what, msg+fmt.Sprintf("; input=%q output=%q", core.Clip(in, 300), core.Clip(out, 300)), w)
		}
		if sp.CrossOrigin && crossOriginEls[t.Name] {
			judged = true
			lc["crossorigin_elements_judged"]++
			n := 0
			for _, a := range t.Attrs {
				if a.Key == "crossorigin" {
					n++
					if a.Val != "anonymous" {
						viol("crossorigin:other-value", fmt.Sprintf("<%s> carries crossorigin=%q", t.Name, a.Val))
					}
				}
			}
			if n == 0 {
				viol("crossorigin:missing", fmt.Sprintf("<%s> is emitted with attributes but without crossorigin", t.Name))
			}
		}
		if sp.Sandbox != nil && t.Name == "iframe" {
			judged = true
			lc["iframes_judged"]++
			n := 0
			for _, a := range t.Attrs {
				if a.Key != "sandbox" {
					continue
				}
				n++
				seen := map[string]bool{}
				for _, tok := range oracle.RelTokens(a.Val) {
					lc["sandbox_tokens_judged"]++
					if !sp.Sandbox[tok] {
						viol("sandbox:unlisted-token", fmt.Sprintf("sandbox=%q keeps token %q which the policy did not list", a.Val, tok))
					}
					if seen[tok] {
						viol("sandbox:duplicate-token", fmt.Sprintf("sandbox=%q repeats token %q", a.Val, tok))
					}
					seen[tok] = true
				}
			}
			if n == 0 {
				viol("sandbox:missing", "iframe is emitted with attributes but without sandbox")
			}
			// "a missing attribute is added empty": no input iframe carried a sandbox => the added one is ""
			if len(inputValues(oracle.Tokens(in), "iframe", "sandbox")) == 0 {
				lc["added_sandbox_checked"]++
				for _, a := range t.Attrs {
					if a.Key == "sandbox" && a.Val != "" {
						viol("sandbox:added-not-empty", fmt.Sprintf("the input iframe had no sandbox attribute but the added one reads %q", a.Val))
					}
				}
			}
		}
	}
	return judged
}

func runC12(ctx *core.Ctx) {
	ctx.Rule = "sandbox subsets (1024 incl. empty and full in quick, all 2^14 in thorough) and crossorigin policies (rule scopes, with/without URL options) x the five media elements and iframe x supplied crossorigin/sandbox values (absent, empty, valid, unknown, duplicated, upper case, mixed whitespace, repeated attributes) with and without other attributes; oracle on every output start tag with >= 1 attribute; non-trivial = a media/iframe tag with attributes was judged, distinct by (policy, input)"
	ctx.Assume("sandbox tokens are split on ASCII whitespace and compared ASCII-case-insensitively", "script is unreachable without AllowUnsafe")
	nSub := ctx.N(1024, 1<<14)
	if !ctx.Quick() {
		ctx.Extra("all_sandbox_subsets_enumerated", true)
	}
	perPol := ctx.N(200, 100)
	ctx.Run("subsets", nSub, func(cs *core.Case) {
		r := cs.R
		mask := cs.Index
		if ctx.Quick() {
			switch cs.Index {
			case 0:
				mask = 0
			case 1:
				mask = 1<<14 - 1
			default:
				mask = r.Intn(1 << 14)
			}
		}
		var vals []int
		for i := 0; i < 14; i++ {
			if mask&(1<<uint(i)) != 0 {
				vals = append(vals, i)
			}
		}
		r.Shuffle(len(vals), func(i, j int) { vals[i], vals[j] = vals[j], vals[i] })
		els := []string{"audio", "img", "link", "video", "iframe", "source", "a"}
		ops := []spec.Op{{K: spec.KNew}}
		re := ""
		if r.Intn(4) == 0 {
			re = `^[^<>"]*$`
		}
		switch r.Intn(3) {
		case 0:
			ops = append(ops, spec.Op{K: spec.KAllowAttrs, Attrs: []string{"src", "href", "x", "crossorigin"}, Re: re, Scope: "els", Names: els})
		case 1:
			ops = append(ops, spec.Op{K: spec.KAllowAttrs, Attrs: []string{"src", "href", "x", "crossorigin"}, Re: re, Scope: "global"}, spec.Op{K: spec.KAllowElements, Names: els})
		default:
			ops = append(ops, spec.Op{K: spec.KAllowAttrs, Attrs: []string{"src", "href", "x"}, Scope: "match", ElRe: `^[a-z]+$`})
		}
		if r.Intn(2) == 0 {
			ops = append(ops, spec.Op{K: spec.KIFrames, Ints: vals})
		} else {
			if r.Intn(2) == 0 {
				ops = append(ops, spec.Op{K: spec.KAllowAttrs, Attrs: []string{"sandbox"}, Scope: "els", Names: []string{"iframe"}})
			}
			ops = append(ops, spec.Op{K: spec.KSandbox, Ints: vals})
		}
		if r.Intn(4) > 0 {
			ops = append(ops, spec.Op{K: spec.KSwitch, Names: []string{spec.SwCrossOrigin}, B: true})
		}
		switch r.Intn(4) {
		case 0:
			ops = append(ops, spec.Op{K: spec.KStdURLs})
		case 1:
			ops = append(ops, spec.Op{K: spec.KSwitch, Names: []string{spec.SwParseable}, B: true}, spec.Op{K: spec.KSchemes, Names: []string{"https"}})
		}
		if r.Intn(5) == 0 {
			ops = append(ops, spec.Op{K: spec.KRewrite, Check: "proxy"})
		}
		if r.Intn(5) == 0 {
			ops = append(ops, spec.Op{K: spec.KDataAttrs})
		}
		if r.Intn(4) == 0 {
			ops = append(ops, spec.Op{K: spec.KSwitch, Names: []string{gen.Pick(r, []string{spec.SwNoFollow, spec.SwNoReferrerFQ, spec.SwTargetBlank})}, B: true})
		}
		// the calls above commute (every switch-like call here only ever sets its settings to one value), so
		// any call order must give the same policy: options first, rules last, anything between
		if r.Intn(3) == 0 {
			r.Shuffle(len(ops)-1, func(i, j int) { ops[1+i], ops[1+j] = ops[1+j], ops[1+i] })
		}
		// script is one of the five elements; it only exists under AllowUnsafe(true)
		if r.Intn(6) == 0 {
			ops = append(ops, spec.Op{K: spec.KUnsafe, B: true}, spec.Op{K: spec.KAllowElements, Names: []string{"script"}}, spec.Op{K: spec.KAllowAttrs, Attrs: []string{"src", "x", "crossorigin"}, Scope: "els", Names: []string{"script"}})
			els = append(els, "script")
		}
		// the zero value of Policy is a valid starting point too (no default tables)
		if r.Intn(6) == 0 {
			ops[0] = spec.Op{K: spec.KZero}
		}
		env := NewEnv(ops)
		lc := core.LocalCounts{}
		lc["policies"]++
		lc["policies:base="+ops[0].K]++
		for i := 0; i < perPol; i++ {
			el := []string{"audio", "img", "link", "video", "iframe", "iframe", "iframe", "source", "a"}[r.Intn(9)]
			if els[len(els)-1] == "script" && r.Intn(4) == 0 {
				el = "script"
			}
			nd := &gen.Node{Name: el, NoEnd: r.Intn(2) == 0}
			if r.Intn(5) > 0 {
				k := "src"
				if el == "link" || el == "a" {
					k = "href"
				}
				nd.Attrs = append(nd.Attrs, [2]string{k, gen.Pick(r, []string{"https://example.org/x", "http://example.org/x", "/rel", "javascript:alert(1)", ""})})
			}
			if r.Intn(3) == 0 {
				nd.Attrs = append(nd.Attrs, [2]string{"x", "y"})
			}
			if r.Intn(6) == 0 {
				nd.Attrs = append(nd.Attrs, [2]string{"data-k", "v"})
			}
			for rep := 0; rep < 1+r.Intn(2); rep++ {
				if r.Intn(2) == 0 {
					nd.Attrs = append(nd.Attrs, [2]string{"crossorigin", c12CrossVals[r.Intn(len(c12CrossVals))]})
				}
				if el == "iframe" && r.Intn(3) > 0 {
					nd.Attrs = append(nd.Attrs, [2]string{"sandbox", c12SandboxVal(r)})
				}
			}
			r.Shuffle(len(nd.Attrs), func(i, j int) { nd.Attrs[i], nd.Attrs[j] = nd.Attrs[j], nd.Attrs[i] })
			in := gen.Serialize(r, []*gen.Node{nd}, r.Intn(3))
			out := SanitizeVia(env.Pol, in, i)
			cs.Eval()
			if c12Judge(cs, env, in, out, lc) {
				cs.Nontrivial(core.Hash(fmt.Sprint(mask), strings.Join(spec.Describe(env.Ops), ";"), in))
				if cs.Ctx.WantSample("tag") {
					cs.Sample("tag", map[string]interface{}{"policy": spec.Describe(env.Ops), "input": core.Show(in), "output": core.Show(out)})
				}
			}
		}
		cs.Flush(lc)
	})
	docWorkload(ctx, spec.GenOpts{}, ctx.N(300, 3000), ctx.N(100, 200), 0, nil, nil, func(cs *core.Case, ob *Obs, lc core.LocalCounts) {
		c12Judge(cs, ob.Env, ob.In, ob.Out, lc)
	})
	ctx.MinNontrivial(int64(ctx.N(3000, 100000)))
	ctx.Floor("crossorigin_elements_judged", 2000)
	ctx.Floor("iframes_judged", 2000)
	ctx.Floor("sandbox_tokens_judged", 2000)
	ctx.Floor("added_sandbox_checked", 500)
}
