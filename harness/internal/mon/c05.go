package mon

import (
	"fmt"
	"regexp"
	"strings"

	"golang.org/x/net/html"

	"verif/harness/internal/core"
	"verif/harness/internal/gen"
	"verif/harness/internal/oracle"
	"verif/harness/internal/spec"
)

// C05 — script and style never survive unless AllowUnsafe(true).

func init() { Registry["C05"] = runC05 }

var markerRe = regexp.MustCompile(`zq[a-z]{2}[0-9]{6}|\f[\t\n]{20}\f|  [\t\n]{20}  `)

// wsMarker: a unique marker made of white space only: a delimiter (form feed, or two spaces for
// even k), the index in 20 binary digits written as tab / newline, the delimiter again.
func wsMarker(k int) string {
	d := "\f"
	if k%2 == 0 {
		d = "  "
	}
	b := []byte(d)
	for i := 19; i >= 0; i-- {
		if k>>uint(i)&1 == 1 {
			b = append(b, '\t')
		} else {
			b = append(b, '\n')
		}
	}
	return string(append(b, d...))
}

func isWsMarker(m string) bool { return m != "" && (m[0] == '\f' || m[0] == ' ') }

type markerGen struct{ n int }

func (m *markerGen) next(r interface{ Intn(int) int }) string {
	m.n++
	return fmt.Sprintf("zq%c%c%06d", 'a'+byte(r.Intn(26)), 'a'+byte(r.Intn(26)), m.n)
}

// scriptStyleForms renders one script/style occurrence in one of many syntactic forms.
func scriptStyleInput(cs *core.Case, env *Env) string {
	r := cs.R
	mg := &markerGen{}
	var b strings.Builder
	parts := 1 + r.Intn(4)
	for i := 0; i < parts; i++ {
		if r.Intn(3) == 0 {
			b.WriteString("<b>" + mg.next(r) + "</b>")
			continue
		}
		if r.Intn(12) == 0 {
			// markup declarations whose text spells a script element through character references: written
			// back undecoded-then-decoded they would become one
			b.WriteString(gen.Pick(r, []string{"<![if !IE]&gt;&lt;script&gt;alert(1)&lt;/script&gt;<![endif]>", "<![if &gt;&lt;script&gt;alert(1)&lt;/script&gt;]>", "<!DOCTYPE html &quot;&gt;&lt;script&gt;alert(1)&lt;/script&gt;>",
				"<!--&gt;&lt;style&gt;x{}&lt;/style&gt;-->", "<?pi &gt;&lt;script&gt;alert(1)&lt;/script&gt;?>", "<![CDATA[&gt;&lt;script&gt;1&lt;/script&gt;]]>", "<!DOCTYPE html&gt;&lt;style&gt;>"}))
			continue
		}
		name := gen.Pick(r, []string{"script", "style", "SCRIPT", "Style", "sCrIpT", "STYLE", "scrİpt", "ſcript", "ſtyle", "sKript", "script\x00", "scripts", "xscript", "style2", "scr\xffipt", "sty\xffle", "\xffscript", "x:script", "svg:style"})
		attrs := gen.Pick(r, []string{"", "", " type=\"text/javascript\"", " src=http://evil.example/x.js", " x", " id=a class=b", "\n", "/x", " type=text/css media=all", " href=x",
			" type=\"application/json\"", " type=application/ld+json", " type=module", " type=\"text/template\"", " type=text/plain", " type=\"\"", " TYPE=Application/JSON id=data", " type=importmap", " type=speculationrules",
			" nomodule", " async defer", " language=javascript", " nonce=abc", " integrity=sha384-x crossorigin=anonymous", " media=print", " scoped", " title=alt", " type=\"text/x-handlebars-template\" id=t", " src=data.json type=application/json", " x=\"application/json\""})
		body := gen.Pick(r, []string{"alert(1)", "body{color:red}", "<b>x</b>", "</b>", "<!-- x -->", "</scr", "</script", "</style", "<script>", "x</SCRIPT >y", "&lt;&amp;", "]]>", "\x00", "", "var a = '</style>';", "@import 'x';"}) + " " + mg.next(r)
		if r.Intn(6) == 0 { // a body made of white space only is a body like any other
			mg.n++
			body = gen.Pick(r, []string{"", " ", "\n"}) + wsMarker(mg.n*977+r.Intn(900))
		}
		switch r.Intn(9) {
		case 0: // self-closing
			b.WriteString("<" + name + attrs + "/>" + mg.next(r))
		case 1: // unterminated
			b.WriteString("<" + name + attrs + ">" + body)
		case 2: // nested in svg / math
			w := gen.Pick(r, []string{"svg", "math", "svg><desc", "math><mtext", "select", "table", "noscript", "template", "textarea", "title", "xmp", "object", "frameset", "nostyle", "iframe", "my-x", "svg><g", "object><p"})
			outer := strings.SplitN(w, ">", 2)[0]
			if r.Intn(3) == 0 {
				// the wrapper's own end tag, a start tag and text inside the script/style body
				body = gen.Pick(r, []string{"", "x"}) + "</" + outer + "><b>" + mg.next(r) + "</b>" + mg.next(r) + " " + body
			}
			b.WriteString("<" + w + "><" + name + attrs + ">" + body + "</" + name + "></" + outer + ">")
		case 3: // stray end tag
			b.WriteString(mg.next(r) + "</" + name + ">")
		case 4: // fake end tag then real one
			b.WriteString("<" + name + attrs + ">" + body + "</" + name + "x>" + mg.next(r) + "</" + name + ">")
		case 5: // end tag with attributes / whitespace
			b.WriteString("<" + name + attrs + ">" + body + "</" + name + gen.Pick(r, []string{" ", "\n", " x=y", "/", "\t"}) + ">")
		case 6: // entity-encoded brackets: must stay text
			b.WriteString("&lt;" + name + "&gt;" + mg.next(r) + "&lt;/" + name + "&gt;")
		case 7: // back to back
			b.WriteString("<" + name + ">" + body + "</" + name + "><" + name + ">" + mg.next(r) + "</" + name + ">")
		default:
			b.WriteString("<" + name + attrs + ">" + body + "</" + name + ">")
		}
		if r.Intn(3) == 0 {
			b.WriteString(mg.next(r))
		}
	}
	return b.String()
}

func c05Judge(cs *core.Case, ob *Obs, lc core.LocalCounts) {
	viol := func(where, what, msg string) {
		cs.Violate("C05:"+where+":"+what, msg+fmt.Sprintf("; input=%q output=%q", core.Clip(ob.In, 300), core.Clip(ob.Out, 300)), ob.Witness())
	}
	for _, t := range ob.OutT {
		if t.IsTag() {
			lc["output_tags_judged"]++
			if spec.IsScriptStyle(t.Name) {
				viol("tok", tokKind(t.Type)+":"+oracle.ASCIILower(t.Name), fmt.Sprintf("output contains a %s tag of <%s>", tokKind(t.Type), t.Name))
			}
		}
	}
	if strings.Contains(ob.Out, "<") {
		for _, c := range oracle.Contexts {
			nodes, err := oracle.ParseIn(ob.Out, c)
			if err != nil {
				continue
			}
			lc["dom_parses"]++
			for _, n := range nodes {
				if n.Type == html.ElementNode && spec.IsScriptStyle(n.Name) {
					viol("dom", n.Name, fmt.Sprintf("parsing the output inside <%s> yields a <%s> element", c, n.Name))
				}
			}
		}
	}
	// body markers: text the tokenizer reports right after a script/style start tag
	sawBody := false
	for i, t := range ob.InT {
		// a self-closing <script/> is a start tag to every HTML5 tree builder (the slash is ignored
		// on non-void elements) and the tokenizer reads what follows as script data all the same
		if (t.Type == html.StartTagToken || t.Type == html.SelfClosingTagToken) && spec.IsScriptStyle(t.Name) {
			if t.Type == html.SelfClosingTagToken {
				lc["self_closing_script_style_in_input"]++
			}
			lc["script_style_start_tags_in_input"]++
			if i+1 < len(ob.InT) && ob.InT[i+1].Type == html.TextToken {
				sawBody = true
				for _, m := range markerRe.FindAllString(ob.InT[i+1].Data, -1) {
					lc["body_markers_checked"]++
					if strings.Contains(ob.Out, m) {
						viol("body", oracle.ASCIILower(t.Name), fmt.Sprintf("marker %s planted inside a <%s> body appears in the output", m, t.Name))
					}
				}
			}
		}
	}
	if sawBody {
		cs.Nontrivial(core.Hash(strings.Join(spec.Describe(ob.Env.Ops), ";"), ob.In))
		if cs.Ctx.WantSample("doc") && len(ob.In) < 300 {
			cs.Sample("doc", map[string]interface{}{"policy": spec.Describe(ob.Env.Ops), "input": core.Show(ob.In), "output": core.Show(ob.Out)})
		}
	}
}

func runC05(ctx *core.Ctx) {
	ctx.Rule = "policies that try to allow script/style (AllowElements, attributes on them, AllowNoAttrs, patterns .*/^s, AllowElementsContent, comments, spaces) x inputs with script/style in many syntactic forms (case, attributes, self-closing, unterminated, nested in svg/math/select/table, fake end tags, look-alike names, entity-encoded brackets) plus the general hostile generator and piece strings; oracle: no script/style tag or DOM element in the output, no marker planted in a script/style body in the output; non-trivial = input has a script/style start tag followed by a body, distinct by (policy, input)"
	ctx.Assume("'inside' a script/style element is the raw-text token the tokenizer reports after its start tag, whether or not the tag is written with a self-closing slash (tree builders ignore the slash on non-void elements)", "AllowUnsafe is never called")
	in := func(cs *core.Case, env *Env, i int) (string, bool) {
		if i%4 == 3 {
			return "", false
		}
		return scriptStyleInput(cs, env), true
	}
	docWorkload(ctx, spec.GenOpts{Styles: true, ScriptStyle: true}, ctx.N(2000, 40000), ctx.N(150, 400), 0, nil, in, c05Judge)
	// fixed worst-case policies with the piece strings
	worst := [][]spec.Op{
		{{K: spec.KNew}, {K: spec.KAllowElements, Names: []string{"script", "style", "b", "html", "body"}}, {K: spec.KComments}, {K: spec.KAllowNoAttrs, Scope: "els", Names: []string{"script", "style"}},
			{K: spec.KAllowAttrs, Attrs: []string{"src", "type", "x"}, Scope: "els", Names: []string{"script", "style"}}, {K: spec.KKeep, Names: []string{"script", "style"}}},
		{{K: spec.KNew}, {K: spec.KStdURLs}, {K: spec.KRewrite, Check: "proxy"}, {K: spec.KAllowElements, Names: []string{"script", "style", "b", "img"}}, {K: spec.KAllowAttrs, Attrs: []string{"src", "href", "type"}, Scope: "els", Names: []string{"script", "style", "img"}},
			{K: spec.KAllowAttrs, Attrs: []string{"src"}, Scope: "global"}, {K: spec.KSwitch, Names: []string{spec.SwCrossOrigin}, B: true}},
		{{K: spec.KNew}, {K: spec.KAllowNoAttrs, Scope: "match", ElRe: `.*`}, {K: spec.KAllowAttrs, Attrs: []string{"src", "x"}, Scope: "match", ElRe: `.*`}, {K: spec.KKeep, Names: []string{"script", "style"}},
			{K: spec.KComments}, {K: spec.KSwitch, Names: []string{spec.SwAddSpaces}, B: true}},
	}
	for wi, ops := range worst {
		env := NewEnv(ops)
		ctx.Run(fmt.Sprintf("forms:worst%d", wi), ctx.N(300, 4000), func(cs *core.Case) {
			lc := core.LocalCounts{}
			for i := 0; i < 100; i++ {
				ob := observe(env, scriptStyleInput(cs, env), i)
				cs.Eval()
				lc["worst_policy_form_inputs"]++
				c05Judge(cs, ob, lc)
			}
			cs.Flush(lc)
		})
	}
	// giant bodies: a script / style body of 64 KiB .. 3 MiB (size thresholds in text handling)
	ctx.Run("giant-bodies", 16, func(cs *core.Case) {
		env := NewEnv(worst[cs.Index%len(worst)])
		if cs.Index%4 == 3 {
			env = NewEnv([]spec.Op{{K: spec.KUGC}})
		}
		n := []int{65537, 300000, 1<<20 + 1, 3 << 20}[cs.Index/4%4]
		name := []string{"script", "style"}[cs.Index%2]
		in := "<b>lead</b><" + name + ">" + strings.Repeat("x = 1; ", n/7) + " zqgb000001</" + name + "><b>tail</b>"
		lc := core.LocalCounts{}
		ob := observe(env, in, cs.Index)
		cs.Eval()
		lc["giant_body_inputs"]++
		c05Judge(cs, ob, lc)
		if strings.Contains(ob.Out, "x = 1;") {
			cs.Violate("C05:body:"+name+":giant", fmt.Sprintf("the %d-byte body of a <%s> element appears in the output (%d bytes out)", n, name, len(ob.Out)), map[string]interface{}{"policy": spec.Describe(env.Ops), "ops": env.Ops, "input_head": core.Show(core.Clip(in, 200)), "input_length": len(in), "output_head": core.Show(core.Clip(ob.Out, 200))})
		}
		cs.Flush(lc)
	})
	L := ctx.N(4, 5)
	total := gen.PieceCount(L)
	const chunk = 4096
	for wi, ops := range worst {
		env := NewEnv(ops)
		ctx.Run(fmt.Sprintf("pieces%d:worst%d", L, wi), (total+chunk-1)/chunk, func(cs *core.Case) {
			lc := core.LocalCounts{}
			for idx := cs.Index * chunk; idx < (cs.Index+1)*chunk && idx < total; idx++ {
				ob := observe(env, gen.PieceString(idx, L), idx)
				cs.Eval()
				lc["piece_strings"]++
				c05Judge(cs, ob, lc)
			}
			cs.Flush(lc)
		})
	}
	ctx.MinNontrivial(int64(ctx.N(5000, 100000)))
	ctx.Floor("body_markers_checked", 20000)
	ctx.Floor("script_style_start_tags_in_input", 20000)
}
