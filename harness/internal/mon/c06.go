package mon

import (
	"fmt"
	"strings"

	"golang.org/x/net/html"

	"verif/harness/internal/core"
	"verif/harness/internal/oracle"
	"verif/harness/internal/spec"
)

// C06 — text is preserved exactly and always emitted escaped.

func init() { Registry["C06"] = runC06 }

// item: one element of the flattened stream: a tag, a comment or one byte of
// decoded character data.
type item struct {
	tag  bool
	comm bool
	typ  html.TokenType
	name string
	ch   byte
}

func flatten(toks []oracle.Tok, keepDoctype bool) []item {
	var out []item
	for _, t := range toks {
		switch t.Type {
		case html.TextToken:
			for i := 0; i < len(t.Data); i++ {
				out = append(out, item{ch: t.Data[i]})
			}
		case html.StartTagToken, html.EndTagToken, html.SelfClosingTagToken:
			out = append(out, item{tag: true, typ: t.Type, name: t.Name})
		case html.CommentToken:
			out = append(out, item{comm: true})
		}
	}
	return out
}

// alignText checks that out equals in with some tags removed (each replaced by
// exactly one space when addSpaces) and comments optionally removed.
func alignText(in, out []item, addSpaces bool) (bool, string) {
	j := 0
	for i := 0; i < len(in); i++ {
		a := in[i]
		switch {
		case a.comm:
			if j < len(out) && out[j].comm {
				j++
			}
		case a.tag:
			if j < len(out) && out[j].tag && out[j].typ == a.typ && out[j].name == a.name {
				j++ // kept
				continue
			}
			if addSpaces {
				if j < len(out) && !out[j].tag && !out[j].comm && out[j].ch == ' ' {
					j++
					continue
				}
				return false, fmt.Sprintf("removed %s tag <%s> (input item %d) is not replaced by exactly one space", tokKind(a.typ), a.name, i)
			}
		default:
			if j >= len(out) {
				return false, fmt.Sprintf("input character %q (item %d) is missing from the output (output text ends early)", a.ch, i)
			}
			b := out[j]
			if b.tag || b.comm || b.ch != a.ch {
				return false, fmt.Sprintf("input character %q (item %d) does not appear at its place in the output (found %s)", a.ch, i, showItem(b))
			}
			j++
		}
	}
	if j != len(out) {
		return false, fmt.Sprintf("output has %d extra items starting with %s", len(out)-j, showItem(out[j]))
	}
	return true, ""
}

func showItem(b item) string {
	if b.tag {
		return fmt.Sprintf("%s tag <%s>", tokKind(b.typ), b.name)
	}
	if b.comm {
		return "a comment"
	}
	return fmt.Sprintf("character %q", b.ch)
}

func c06Judge(cs *core.Case, ob *Obs, lc core.LocalCounts) {
	sp := ob.Env.Spec
	// (b) always: no input text becomes markup
	if ok, what := tagSubsequence(ob.InT, ob.OutT); !ok {
		cs.Violate("C06:text-became-markup", fmt.Sprintf("output %s has no counterpart among the input's tags; input=%q output=%q", what, core.Clip(ob.In, 300), core.Clip(ob.Out, 300)), ob.Witness())
	}
	lc["alignments_checked"]++
	// (a)/(c): exact preservation for the stated class
	if sp.RawTextAllowed() {
		cs.Skip("policy allows a raw-text element")
		return
	}
	for _, t := range ob.InT {
		if t.IsTag() && (spec.IsScriptStyle(t.Name) || sp.Skip[t.Name]) {
			cs.Skip("input contains a script/style/skip-content element")
			return
		}
	}
	if strings.TrimSpace(ob.In) == "" {
		cs.Skip("blank input")
		return
	}
	in, out := flatten(ob.InT, false), flatten(ob.OutT, false)
	ok, why := alignText(in, out, sp.AddSpaces)
	lc["text_equalities_checked"]++
	if sp.AddSpaces {
		lc["with_space_insertion"]++
	}
	if !ok {
		shape := "plain"
		if sp.AddSpaces {
			shape = "add-spaces"
		}
		w := ob.Witness()
		w["why"] = why
		w["input_text"] = core.Show(oracle.Text(ob.InT))
		w["output_text"] = core.Show(oracle.Text(ob.OutT))
		cs.Violate("C06:text-differs:"+shape, fmt.Sprintf("character data changed: %s; input=%q output=%q", why, core.Clip(ob.In, 300), core.Clip(ob.Out, 300)), w)
	}
	ntext := 0
	for _, it := range in {
		if !it.tag && !it.comm {
			ntext++
		}
	}
	if ntext > 0 {
		cs.Nontrivial(core.Hash(strings.Join(spec.Describe(ob.Env.Ops), ";"), ob.In))
		if cs.Ctx.WantSample("doc") && len(ob.In) < 200 {
			cs.Sample("doc", map[string]interface{}{"policy": spec.Describe(ob.Env.Ops), "input": core.Show(ob.In), "output": core.Show(ob.Out)})
		}
	}
}

func runC06(ctx *core.Ctx) {
	ctx.Rule = "random policies (half of them unable to allow raw-text elements, a third with AddSpaceWhenStrippingTag) x text-heavy noisy documents, corpus mutants and piece strings; oracle: the flattened input stream (tags, comments, bytes of decoded character data) must equal the flattened output stream item by item once removed tags are dropped (or replaced by exactly one space), and output tags must be a subsequence of input tags; non-trivial = in-class case with at least one text byte, distinct by (policy, input)"
	ctx.Assume("x/net/html's tokenizer defines the text an HTML tokenizer reads; raw bytes are compared, so invalid UTF-8 and NUL are covered", "cases outside the stated class are counted as skipped")
	docWorkloadOpts(ctx, func(cs *core.Case) spec.GenOpts {

		o := spec.GenOpts{Styles: false, NoRawText: cs.Index%2 == 0}
		return o
	}, ctx.N(4000, 60000), ctx.N(150, 400), c06Judge)
	piecesWorkload(ctx, ctx.N(4, 5), []string{"comments-spaces", "ugc"}, c06Judge)
	piecesWorkload(ctx, ctx.N(3, 4), []string{"strict", "pattern-everything", "foreign"}, c06Judge)
	// giant tokens: one run of text / one attribute value / one comment of 64 KiB .. 6 MiB (buffer limits)
	sizes := []int{65536, 70001, 1 << 20, 4<<20 + 1, 6 << 20, 4 << 20, 2<<20 + 7, 131073}
	ctx.Run("giant-tokens", len(sizes)*3, func(cs *core.Case) {
		n := sizes[cs.Index/3]
		var env *Env
		switch cs.Index % 3 {
		case 0:
			env = NewEnv([]spec.Op{{K: spec.KUGC}})
		case 1:
			env = NewEnv([]spec.Op{{K: spec.KNew}, {K: spec.KAllowElements, Names: []string{"p", "b"}}, {K: spec.KAllowAttrs, Attrs: []string{"title"}, Scope: "global"}, {K: spec.KSwitch, Names: []string{spec.SwAddSpaces}, B: true}})
		default:
			env = NewEnv([]spec.Op{{K: spec.KStrict}})
		}
		lc := core.LocalCounts{}
		for k, in := range []string{"<p>lead</p>" + strings.Repeat("x", n) + "<p>tail</p>", "<p title=\"" + strings.Repeat("t", n) + "\">x</p>tail", "<b>a</b><!--" + strings.Repeat("c", n) + "-->after<i>z</i>", "<p>" + strings.Repeat("&amp;<b>y</b>", n/13) + "</p>"} {
			ob := observe(env, in, k)
			cs.Eval()
			lc["giant_token_inputs"]++
			c06Judge(cs, ob, lc)
			cs.Nontrivial(core.Hash("giant", fmt.Sprint(cs.Index, k)))
		}
		cs.Flush(lc)
	})
	ctx.Floor("giant_token_inputs", 90)
	ctx.MinNontrivial(int64(ctx.N(5000, 100000)))
	ctx.Floor("text_equalities_checked", 20000)
	ctx.Floor("with_space_insertion", 2000)
}
