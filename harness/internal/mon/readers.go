package mon

import (
	"bufio"
	"io"
)

// Reader capability wrappers: the same byte source offered through types that implement more
// than io.Reader. Code that type-switches on its source (Len(), io.WriterTo, io.ByteReader ...)
// takes a different path for each, and every path owes the same result and the same error.

var readerKindNames = []string{"plain", "bufio.Reader", "with-Len", "io.WriterTo", "io.ByteScanner", "io.MultiReader"}

type lenReader struct {
	io.Reader
	remaining func() int
}

func (l lenReader) Len() int { return l.remaining() }

// writerToReader implements io.WriterTo by draining the wrapped reader itself.
type writerToReader struct{ r io.Reader }

func (w writerToReader) Read(p []byte) (int, error) { return w.r.Read(p) }

func (w writerToReader) WriteTo(dst io.Writer) (int64, error) {
	var total int64
	buf := make([]byte, 512)
	zero := 0
	for {
		n, err := w.r.Read(buf)
		if n > 0 {
			zero = 0
			m, werr := dst.Write(buf[:n])
			total += int64(m)
			if werr != nil {
				return total, werr
			}
		} else if err == nil {
			if zero++; zero > 100 {
				return total, io.ErrNoProgress
			}
		}
		if err == io.EOF {
			return total, nil
		}
		if err != nil {
			return total, err
		}
	}
}

type byteScanner struct {
	r    io.Reader
	last int
}

func (b *byteScanner) Read(p []byte) (int, error) { return b.r.Read(p) }

func (b *byteScanner) ReadByte() (byte, error) {
	var one [1]byte
	for i := 0; i < 100; i++ {
		n, err := b.r.Read(one[:])
		if n == 1 {
			return one[0], nil
		}
		if err != nil {
			return 0, err
		}
	}
	return 0, io.ErrNoProgress
}

func (b *byteScanner) UnreadByte() error { return io.ErrNoProgress }

// wrapReader offers r through capability kind (index into readerKindNames).
func wrapReader(r io.Reader, kind int, remaining func() int) io.Reader {
	switch kind % len(readerKindNames) {
	case 1:
		return bufio.NewReaderSize(r, 16)
	case 2:
		return lenReader{r, remaining}
	case 3:
		return writerToReader{r}
	case 4:
		return &byteScanner{r: r}
	case 5:
		return io.MultiReader(r)
	}
	return r
}
