package mon

import (
	"fmt"
	"reflect"
	"regexp"
	"runtime"
	"sort"
	"strings"

	"github.com/microcosm-cc/bluemonday"
	"github.com/microcosm-cc/bluemonday/css"

	"verif/harness/internal/core"
	"verif/harness/internal/gen"
	"verif/harness/internal/oracle"
)

// C18 — default CSS value handlers accept only inert, whole values.

type hostileFrag struct {
	class string
	text  string
	ref   bool // a bare scheme reference: harmless when it lands inside an http(s) url()
}

var c18Frags = []hostileFrag{
	{"url-javascript", "url(javascript:alert(1))", false},
	{"url-javascript-quoted", "url('javascript:alert(1)')", false},
	{"url-data", "url(data:text/html;base64,PHNjcmlwdD4=)", false},
	{"url-scheme-relative", "url(//evil.example/x)", false},
	{"url-ftp", "url(ftp://evil.example/x)", false},
	{"url-relative", "url(x.png)", false},
	{"url-relative-http-prefixed-name", "url(httpx.png)", false},
	{"url-http-without-authority", "url(http:evil.example/x)", false},
	{"url-http-one-slash", "url(https:/evil.example/x)", false},
	{"url-fragment-only", "url(#f1)", false},
	{"url-fragment-only", "url(\"#f1\")", false},
	{"url-fragment-only", "url('#a-b_c')", false},
	{"url-empty", "url()", false},
	{"url-absolute-path", "url(/x.svg#f)", false},
	{"url-about", "url(about:blank)", false},
	{"url-blob", "url(blob:https://example.org/1)", false},
	{"expression", "expression(alert(1))", false},
	{"javascript-ref", "javascript:alert(1)", true},
	{"data-ref", "data:text/html,x", true},
	{"escaped-expression", "\\65 xpression(alert(1))", false},
	{"backslash", "\\", false},
	{"hex-escape", "\\3c ", false},
	{"hex-escape", "\\3c", false},
	{"hex-escape", "\\201c", false},
	{"hex-escape", "\\22", false},
	{"hex-escape", "\\00003c", false},
	{"hex-escape", "\\a", false},
	{"hex-escape", "\\9", false},
	{"hex-escape", "\\0", false},
	{"hex-escape", "\\0/", false},
	{"angle-lt", "<", false},
	{"angle-gt", ">", false},
	{"close-style", "</style>", false},
	{"comment-open", "<!--", false},
	{"at-import", "@import url(x)", false},
	{"at-import-string", "@import 'x'", false},
	{"at-charset", "@charset \"x\"", false},
	// hostile content wrapped in a functional notation a handler might learn to accept
	{"wrapped-expression", "calc(expression(alert(1)))", false},
	{"wrapped-expression", "min(expression(alert(1)), 1px)", false},
	{"wrapped-expression", "var(--x, expression(alert(1)))", false},
	{"wrapped-url-javascript", "calc(url(javascript:alert(1)))", false},
	{"wrapped-url-javascript", "image-set(url(javascript:alert(1)) 1x)", false},
	{"wrapped-url-javascript", "attr(url(javascript:alert(1)))", false},
	{"wrapped-angle", "calc(1px<2px)", false},
}

func handlerName(h func(string) bool) string {
	n := runtime.FuncForPC(reflect.ValueOf(h).Pointer()).Name()
	if i := strings.LastIndex(n, "."); i >= 0 {
		n = n[i+1:]
	}
	return n
}

func inURLSpan(base string, pos int) bool {
	i := strings.Index(base, "url(")
	for i >= 0 {
		end := strings.Index(base[i:], ")")
		if end < 0 {
			end = len(base) - i
		}
		if pos > i+3 && pos <= i+end {
			return true
		}
		j := strings.Index(base[i+4:], "url(")
		if j < 0 {
			break
		}
		i = i + 4 + j
	}
	return false
}

func init() { Registry["C18"] = runC18 }

func runC18(ctx *core.Ctx) {
	ctx.Rule = "per documented property: accepted single tokens are discovered from a ~500-token pool; base values = accepted sequences of <=3 tokens over 5 separators plus 4-token sequences over a 4-token subset (bounded, stride-sampled to a fixed cap); each of 19 hostile fragments is prepended/appended (bare and with each separator), inserted at every byte offset and substituted for every byte; plus unknown-property lookups against the whole pool and an end-to-end pass through Policy.Sanitize. Non-trivial = a (handler, base value) pair the handler accepts, distinct by property+value"
	ctx.Assume("containment of a hostile fragment is a syntactic fact about the generated value; bare javascript:/data: fragments are not judged when they land inside an http(s) url() token",
		"values are kept <= 6 space-separated components so backtracking handlers cannot stall the monitor")
	pool := gen.CSSTokenPool()
	props := gen.CSSProperties
	capSingles := ctx.N(18, 40)
	capBases := ctx.N(110, 1200)

	// --- unknown properties reject everything ---------------------------------
	unknown := []string{"--accent", "--x", "--", "--color", "--COLOR", "---", "-", "behavior", "-moz-binding", "Color", "color ", " color", "colour", "COLOR", "background-image ", "x", "", "binding", "-ms-behavior", "src", "content", "unicode-range", "font-face", "expression", "zoom", "-webkit-mask-image", "mask", "clip-path", "will-change"}
	// real CSS properties (newer modules) that the documented table does not list
	unknown = append(unknown, strings.Fields(`gap row-gap inset inset-block inset-inline aspect-ratio accent-color place-items place-content place-self scroll-snap-type scroll-snap-align scroll-margin scroll-padding overscroll-behavior
		text-underline-offset text-decoration-thickness text-emphasis font-display font-feature-settings font-variation-settings font-optical-sizing mask-image mask-size contain content-visibility appearance all block-size inline-size
		min-block-size max-inline-size line-clamp translate rotate scale touch-action overflow-anchor overflow-clip-margin color-scheme forced-color-adjust print-color-adjust container container-type view-transition-name
		offset-path shape-outside shape-margin text-wrap white-space-collapse hyphenate-character initial-letter math-style ruby-position text-combine-upright border-start-start-radius margin-trim anchor-name src unicode-range`)...)
	r := ctx.StreamRand("unknown-names")
	for i := 0; i < 40; i++ {
		unknown = append(unknown, gen.RandIdent(r, 3+r.Intn(10)))
	}
	known := map[string]bool{}
	for _, p := range props {
		known[p] = true
	}
	// near-misses derived from the documented names: same suffix / prefix / one character off
	segs := map[string]bool{}
	for _, p := range props {
		parts := strings.Split(p, "-")
		segs[parts[len(parts)-1]] = true
		segs[parts[0]] = true
		unknown = append(unknown, p+"x", "x"+p, p+"-", "-"+p, p[:len(p)-1], strings.ToUpper(p[:1])+p[1:])
		// logical / directional / sub-property suffixes of documented names are not documented names
		for _, sf := range []string{"-start", "-end", "-inline", "-block", "-inline-start", "-block-end", "-top", "-left", "-x", "-y", "-color", "-width", "-style", "-image", "-size"} {
			if !known[p+sf] {
				unknown = append(unknown, p+sf)
			}
		}
		if !strings.HasPrefix(p, "-") {
			// vendor-prefixed spellings of documented names are not documented names
			for _, vp := range []string{"-webkit-", "-moz-", "-ms-", "-o-", "-khtml-", "mso-", "-WEBKIT-"} {
				if !known[vp+p] {
					unknown = append(unknown, vp+p)
				}
			}
		}
	}
	for sg := range segs {
		unknown = append(unknown, "x-"+sg, "scrollbar-base-"+sg, sg+"-x", "-"+sg, sg+"-", "-vendor-"+sg)
	}
	sort.Strings(unknown)
	ctx.Run("unknown", len(unknown), func(cs *core.Case) {
		name := unknown[cs.Index]
		if known[name] {
			return
		}
		h := css.GetDefaultHandler(name)
		lc := core.LocalCounts{}
		toks := append(append([]string{}, pool...), "", " ", "inherit", "initial", "unset", "0")
		if cs.Index >= 60 { // derived names: every 7th pool token plus the universal ones keeps the count fixed and modest
			toks = []string{"", "inherit", "initial", "unset", "0", "red", "#fff", "rgb(0,0,0)", "1px", "10%", "none", "auto", "solid", "left", "bold", "url(http://example.org/a.png)", "1", "1s", "center", "block"}
			for i, t := range pool {
				if i%7 == cs.Index%7 {
					toks = append(toks, t)
				}
			}
		}
		for _, tok := range toks {
			cs.Eval()
			lc["unknown_property_calls"]++
			if h(tok) {
				cs.Violate("C18:unknown-property:accepts", fmt.Sprintf("GetDefaultHandler(%q) accepts %q; the handler of an undocumented property must reject everything", name, tok),
					map[string]interface{}{"property": name, "value": tok})
			}
		}
		cs.Nontrivial(core.Hash("unknown", name))
		cs.Flush(lc)
	})

	// --- per handler ---------------------------------------------------------------
	const shards = 12 // the insertion work of one handler is split over 4 cases (better load balance)
	ctx.Run("handler", len(props)*shards, func(cs *core.Case) {
		prop := props[cs.Index/shards]
		shard := cs.Index % shards
		// discovery must not depend on the shard: use a PRNG derived from the property only
		cs = &core.Case{Ctx: cs.Ctx, Stream: cs.Stream, Index: cs.Index, R: cs.Ctx.StreamRand("handler:" + prop)}
		h := css.GetDefaultHandler(prop)
		hn := handlerName(h)
		lc := core.LocalCounts{}
		if hn == "BaseHandler" {
			cs.Violate("C18:"+prop+":no-handler", "documented property "+prop+" has no default handler", map[string]interface{}{"property": prop})
			return
		}
		call := func(v string) bool {
			cs.Eval()
			lc["handler_calls"]++
			return h(v)
		}
		// 1. discover accepted single tokens
		singles := []string{}
		for _, t := range pool {
			if call(t) {
				singles = append(singles, t)
			}
		}
		if shard == 0 {
			lc["accepted_single_tokens"] += len(singles)
		}
		if len(singles) == 0 {
			cs.Skip("handler accepted no pool token: " + prop)
			cs.Flush(lc)
			return
		}
		// keep a spread: prefer different "shapes" (first byte class + length bucket)
		pick := spread(singles, capSingles, cs)
		// 2. base values: sequences of <= 3 tokens
		baseSet := map[string]bool{}
		for _, s := range singles {
			baseSet[s] = true
		}
		for _, a := range pick {
			for _, b := range pick {
				for _, sep := range gen.CSSSeparators {
					v := a + sep + b
					if call(v) {
						baseSet[v] = true
					}
				}
			}
		}
		tri := pick
		if len(tri) > 6 {
			tri = tri[:6]
		}
		for _, a := range tri {
			for _, b := range tri {
				for _, c := range tri {
					for _, sep := range []string{" ", ", ", " / "} {
						v := a + sep + b + sep + c
						if call(v) {
							baseSet[v] = true
						}
					}
					v := a + " " + b + ", " + c
					if call(v) {
						baseSet[v] = true
					}
				}
			}
		}
		quad := pick
		if len(quad) > 4 {
			quad = quad[:4]
		}
		for _, a := range quad {
			for _, b := range quad {
				for _, c := range quad {
					for _, d := range quad {
						for _, sep := range []string{" ", " / ", ", "} {
							v := a + sep + b + sep + c + sep + d
							if call(v) {
								baseSet[v] = true
							}
						}
						if v := a + " " + b + " / " + c + " " + d; call(v) {
							baseSet[v] = true
						}
					}
				}
			}
		}
		bases := make([]string, 0, len(baseSet))
		for b := range baseSet {
			bases = append(bases, b)
		}
		sort.Strings(bases)
		if len(bases) > capBases {
			// deterministic stride sample, always keeping the shortest ones
			sort.SliceStable(bases, func(i, j int) bool { return len(bases[i]) < len(bases[j]) })
			keep := append([]string{}, bases[:capBases/3]...)
			rest := bases[capBases/3:]
			stride := len(rest) / (capBases - capBases/3)
			if stride < 1 {
				stride = 1
			}
			off := cs.R.Intn(stride)
			for i := off; i < len(rest) && len(keep) < capBases; i += stride {
				keep = append(keep, rest[i])
			}
			bases = keep
		}
		if shard == 0 {
			lc["base_values"] += len(bases)
		}
		// 3. hostile insertion
		report := func(base, v string, f hostileFrag, posClass string) {
			sig := fmt.Sprintf("C18:%s:%s:%s", hn, f.class, posClass)
			w := map[string]interface{}{"property": prop, "handler": hn, "base_value": base, "hostile_value": core.Show(v), "fragment": f.text, "position": posClass}
			// end-to-end confirmation, informational
			p := bluemonday.NewPolicy()
			p.AllowStyles(prop).Globally()
			p.AllowElements("span")
			in := `<span style="` + oracle.EscapeAttr(prop+": "+v) + `">x</span>`
			w["end_to_end_input"] = core.Show(in)
			w["end_to_end_output"] = core.Show(p.Sanitize(in))
			cs.Violate(sig, fmt.Sprintf("default handler of %q (%s) accepts %q, which contains the hostile fragment %q (%s)", prop, hn, v, f.text, posClass), w)
		}
		// whatever the property, a value of its value space is a sequence of well-formed component values:
		// brackets balanced and properly nested, strings closed. Variants of accepted values that are not
		// (a bracket dropped, added or doubled; junk with stray brackets) must be refused
		for bi, base := range bases {
			if bi%shards != shard || len(base) > 60 {
				continue
			}
			var vs []string
			if i := strings.Index(base, "("); i > 0 && strings.HasSuffix(base, ")") {
				vs = append(vs, base[:len(base)-1], base[:i]+base[i+1:], base+")", base[:i+1]+base, base[:i+1]+"("+base[i+1:], "1"+base[:i+1]+base[i+1:len(base)-1])
			}
			for q := 0; q < len(base); q++ {
				if base[q] == '"' || base[q] == '\'' { // one quote of a pair left out
					vs = append(vs, base[:q]+base[q+1:])
				}
			}
			for _, j := range []string{")", "(", "]", "[", "}", "{", "\"", "'", "]]]", "[[", "(()", "[[--5|||]]]", "\"x"} {
				vs = append(vs, base+" "+j, j+" "+base, base+j)
			}
			for _, v := range vs {
				lc["malformed_variants_tried"]++
				if !cssWellFormed(v) && call(v) {
					sig := fmt.Sprintf("C18:%s:malformed-value-accepted", hn)
					cs.Violate(sig, fmt.Sprintf("default handler of %q (%s) accepts %q, which is not a sequence of well-formed component values (unbalanced bracket or open string), so it belongs to no property's value space; derived from the accepted value %q", prop, hn, v, base),
						map[string]interface{}{"property": prop, "handler": hn, "base_value": base, "malformed_value": core.Show(v)})
				}
			}
		}
		if shard == 0 {
			// the fragment as the whole value, and after each keyword-ish single
			for _, f := range c18Frags {
				if call(f.text) {
					report("", f.text, f, "alone")
				}
				if call(" " + f.text + " ") {
					report("", " "+f.text+" ", f, "alone")
				}
				lc["fragment_placements"] += 2
			}
		}
		for bi, base := range bases {
			if bi%shards != shard {
				continue
			}
			cs.Nontrivial(core.Hash(prop, base))
			if cs.Ctx.WantSample("base:" + hn) {
				cs.Sample("base:"+hn, map[string]interface{}{"property": prop, "handler": hn, "accepted_base_value": base})
			}
			for _, f := range c18Frags {
				// prefix / suffix, bare and with each separator
				if v := f.text + base; call(v) {
					report(base, v, f, "prefix")
				}
				if v := base + f.text; call(v) {
					report(base, v, f, "suffix")
				}
				for _, sep := range gen.CSSSeparators {
					if v := f.text + sep + base; call(v) {
						report(base, v, f, "prefix")
					}
					if v := base + sep + f.text; call(v) {
						report(base, v, f, "suffix")
					}
				}
				for p := 1; p < len(base); p++ {
					if f.ref && inURLSpan(base, p) {
						continue
					}
					if v := base[:p] + f.text + base[p:]; call(v) {
						report(base, v, f, "infix")
					}
					if v := base[:p] + " " + f.text + " " + base[p:]; call(v) {
						report(base, v, f, "infix")
					}
				}
				for p := 0; p < len(base); p++ {
					if f.ref && inURLSpan(base, p) {
						continue
					}
					if v := base[:p] + f.text + base[p+1:]; call(v) {
						report(base, v, f, "substituted")
					}
				}
				// comments: the fragment inside a complete comment before, after and inside the value
				for _, v := range []string{base + "/*" + f.text + "*/", "/*" + f.text + "*/" + base, base + " /* " + f.text + " */", "/*" + f.text + "*/ " + base, base[:len(base)/2] + "/*" + f.text + "*/" + base[len(base)/2:]} {
					if call(v) {
						report(base, v, f, "in-comment")
					}
				}
				lc["fragment_placements"] += 5
				// quoted strings: the fragment as the whole content of each string in the value
				for q := 0; q < len(base); q++ {
					if base[q] != '"' && base[q] != '\'' {
						continue
					}
					e := strings.IndexByte(base[q+1:], base[q])
					if e < 0 {
						break
					}
					if !(f.ref && inURLSpan(base, q)) {
						if v := base[:q+1] + f.text + base[q+1+e:]; call(v) {
							report(base, v, f, "string-content")
						}
						if v := base[:q+1] + base[q+1:q+1+e] + f.text + base[q+1+e:]; call(v) {
							report(base, v, f, "string-content")
						}
						lc["fragment_placements"] += 2
					}
					q += e + 1
				}
				// functional notations: the fragment between the function's opening and a complete second
				// copy of the value (`f(FRAG f(args)`), and as an extra leading argument
				if i := strings.Index(base, "("); i > 0 {
					open := base[:i+1]
					inner := base[i+1 : len(base)-1]
					for _, v := range []string{base[:len(base)-1] + "," + f.text + ")", base[:len(base)-1] + ", " + f.text + ")", open + inner + "," + inner + "," + f.text + ")", open + "1px,1px,1px," + f.text + ")", open + "1,1,1,1," + f.text + ",1)",
						open + f.text + " " + base, open + f.text + ") " + base, open + f.text + "," + base[i+1:], open + f.text + " " + base[i+1:], base[:len(base)-1] + " " + f.text + ")", base + " " + open + f.text + ")"} {
						if call(v) {
							report(base, v, f, "function-sandwich")
						}
					}
				}
				lc["fragment_placements"] += 2 + 2*len(gen.CSSSeparators) + 3*len(base) - 2
			}
		}
		cs.Flush(lc)
	})

	// --- end to end: default-handler policies never emit a hostile declaration ---
	ne2e := ctx.N(4000, 60000)
	ctx.Run("e2e", ne2e, func(cs *core.Case) {
		r := cs.R
		prop := props[r.Intn(len(props))]
		h := css.GetDefaultHandler(prop)
		// find a base the handler accepts
		base := ""
		for try := 0; try < 30 && base == ""; try++ {
			n := 1 + r.Intn(3)
			parts := []string{}
			for i := 0; i < n; i++ {
				parts = append(parts, pool[r.Intn(len(pool))])
			}
			v := strings.Join(parts, gen.CSSSeparators[r.Intn(len(gen.CSSSeparators))])
			if h(v) {
				base = v
			}
		}
		if base == "" {
			cs.Skip("e2e: no accepted base found in 30 draws")
			return
		}
		f := c18Frags[r.Intn(len(c18Frags))]
		p := r.Intn(len(base) + 1)
		var v string
		switch r.Intn(3) {
		case 0:
			v = base[:p] + f.text + base[p:]
		case 1:
			v = base[:p] + " " + f.text + " " + base[p:]
		default:
			if p < len(base) {
				v = base[:p] + f.text + base[p+1:]
			} else {
				v = base + f.text
			}
		}
		if f.ref && inURLSpan(base, p) {
			cs.Skip("e2e: bare scheme reference inside url()")
			return
		}
		pol := bluemonday.NewPolicy()
		switch r.Intn(3) {
		case 0:
			pol.AllowStyles(prop).Globally()
			pol.AllowElements("span")
		case 1:
			pol.AllowStyles(prop).OnElements("span")
		default:
			pol.AllowStyles(strings.ToUpper(prop)).OnElementsMatching(gen.Re(`^sp`))
		}
		in := `<span style="` + oracle.EscapeAttr(prop+": "+v) + `">x</span>`
		out := pol.Sanitize(in)
		cs.Eval()
		cs.Count("e2e_sanitize_calls", 1)
		// judge the output as a browser reads it: the escape-decoded value of every emitted
		// declaration must be free of hostile content (an escaped spelling of a harmless value,
		// e.g. "au\\to", is legitimately kept: handlers judge the decoded value, see C10)
		for _, sv := range oracle.StyleAttrValues(out) {
			cs.Count("e2e_style_attributes_emitted", 1)
			for _, d := range oracle.ParseDeclarations(sv) {
				if cls := hostileContent(d.DecodedValue); cls != "" {
					cs.Violate(fmt.Sprintf("C18:%s:%s:end-to-end", handlerName(h), cls),
						fmt.Sprintf("default-handler policy for %q emitted style %q, which a browser reads as value %q (%s)", prop, sv, d.DecodedValue, cls),
						map[string]interface{}{"property": prop, "input": core.Show(in), "output": core.Show(out), "fragment": f.text, "browser_value": core.Show(d.DecodedValue)})
				}
			}
		}
		cs.Nontrivial(core.Hash("e2e", prop, v))
	})
	ctx.MinNontrivial(2000)
	ctx.Floor("handler_calls", 1000000)
	ctx.Floor("unknown_property_calls", 5000)
	ctx.Floor("e2e_sanitize_calls", 1000)
}

var plainHTTPURL = regexp.MustCompile(`^url\(("https?://[a-z0-9./_:-]+"|'https?://[a-z0-9./_:-]+'|https?://[a-z0-9./_:-]+)\)`)

// hostileContent classifies what the property forbids, judged on the value a browser reads.
func hostileContent(v string) string {
	switch {
	case strings.ContainsAny(v, "<>"):
		return "angle-bracket"
	case strings.Contains(v, "\\"):
		return "backslash"
	case strings.Contains(v, "expression("):
		return "expression"
	case strings.Contains(v, "@import") || strings.Contains(v, "@charset"):
		return "at-rule"
	}
	rest := v
	for {
		i := strings.Index(rest, "url(")
		if i < 0 {
			break
		}
		m := plainHTTPURL.FindString(rest[i:])
		if m == "" {
			return "url-not-plain-http"
		}
		rest = rest[:i] + " " + rest[i+len(m):]
	}
	if strings.Contains(rest, "javascript:") || strings.Contains(rest, "data:") {
		return "script-or-data-reference"
	}
	return ""
}

// spread keeps at most n strings, preferring variety of shape.
func spread(ss []string, n int, cs *core.Case) []string {
	if len(ss) <= n {
		return ss
	}
	shape := func(s string) string {
		c := "a"
		switch {
		case s[0] >= '0' && s[0] <= '9' || s[0] == '-' || s[0] == '.':
			c = "n"
		case s[0] == '#':
			c = "#"
		case s[0] == '\'' || s[0] == '"':
			c = "q"
		}
		if i := strings.Index(s, "("); i > 0 {
			c = "f:" + s[:i]
		}
		if strings.Contains(s, " ") {
			c += "+sp"
		}
		return c
	}
	byShape := map[string][]string{}
	order := []string{}
	for _, s := range ss {
		k := shape(s)
		if _, ok := byShape[k]; !ok {
			order = append(order, k)
		}
		byShape[k] = append(byShape[k], s)
	}
	// functional notations and quoted strings first: they are where unanchored patterns live
	sort.Slice(order, func(i, j int) bool {
		fi, fj := strings.HasPrefix(order[i], "f:") || strings.HasPrefix(order[i], "q"), strings.HasPrefix(order[j], "f:") || strings.HasPrefix(order[j], "q")
		if fi != fj {
			return fi
		}
		return order[i] < order[j]
	})
	out := []string{}
	for round := 0; len(out) < n; round++ {
		added := false
		for _, k := range order {
			l := byShape[k]
			if round < len(l) && len(out) < n {
				// rotate within a shape by the case PRNG so seeds see different keywords
				out = append(out, l[(round+cs.R.Intn(len(l)))%len(l)])
				added = true
			}
		}
		if !added {
			break
		}
	}
	// dedupe
	seen := map[string]bool{}
	res := []string{}
	for _, s := range out {
		if !seen[s] {
			seen[s] = true
			res = append(res, s)
		}
	}
	return res
}

// cssWellFormed: brackets balanced and properly nested outside strings, strings closed, escapes complete.
func cssWellFormed(v string) bool {
	var st []byte
	for i := 0; i < len(v); i++ {
		switch c := v[i]; c {
		case '\\':
			i++
			if i >= len(v) {
				return false
			}
		case '"', '\'':
			j := i + 1
			for j < len(v) && v[j] != c {
				if v[j] == '\\' {
					j++
				}
				j++
			}
			if j >= len(v) {
				return false
			}
			i = j
		case '(':
			st = append(st, ')')
		case '[':
			st = append(st, ']')
		case '{':
			st = append(st, '}')
		case ')', ']', '}':
			if len(st) == 0 || st[len(st)-1] != c {
				return false
			}
			st = st[:len(st)-1]
		}
	}
	return len(st) == 0
}
