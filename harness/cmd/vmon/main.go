// vmon: the single monitor binary.  vmon -prop C07 -tier quick -seed 7
package main

import (
	"flag"
	"fmt"
	"os"
	"runtime"
	"strconv"
	"strings"
	"time"

	"verif/harness/internal/core"
	"verif/harness/internal/mon"
)

func main() {
	prop := flag.String("prop", "", "property id (C01..C20)")
	tier := flag.String("tier", "quick", "quick|thorough")
	seedF := flag.Int64("seed", -1, "PRNG seed (default: $VERIF_SEED or 1)")
	replay := flag.String("replay", "", "replay file written by an earlier violating run")
	wd := flag.Int("watchdog", 0, "wall-clock watchdog in seconds (0: tier default); firing is inconclusive, never a violation")
	verif := flag.String("verif", "/verif", "verification directory")
	child := flag.String("child", "", "internal: run as a worker child (C14)")
	flag.Parse()
	core.VerifDir = *verif

	if *child != "" {
		core.ApplyChildLimits()
		os.Exit(mon.Child(*child, flag.Args()))
	}

	seed := *seedF
	if seed < 0 {
		seed = 1
		if s := os.Getenv("VERIF_SEED"); s != "" {
			if v, err := strconv.ParseInt(s, 10, 64); err == nil {
				seed = v
			}
		}
	}
	if t := os.Getenv("VERIF_TIER"); t != "" && !isFlagSet("tier") {
		*tier = t
	}
	var ctx *core.Ctx
	if *replay != "" {
		rf, err := core.LoadReplay(*replay)
		if err != nil {
			fmt.Println("cannot load replay file:", err)
			os.Exit(core.ExitInconclusive)
		}
		ctx = core.NewCtx(rf.Property, rf.Tier, rf.Seed)
		ctx.Replaying, ctx.ReplayStream, ctx.ReplayIndex = true, rf.Stream, rf.Index
		*prop = rf.Property
	} else {
		ctx = core.NewCtx(*prop, *tier, seed)
	}
	m, ok := mon.Registry[*prop]
	if !ok {
		fmt.Println("unknown property", *prop)
		os.Exit(core.ExitInconclusive)
	}
	limit := *wd
	if limit == 0 {
		limit = 1450
		if *tier == "thorough" {
			limit = 5300
		}
	}
	go func() {
		time.Sleep(time.Duration(limit) * time.Second)
		// a fired watchdog is never a violation by itself; violations already witnessed are
		// still reported (with their replay files), everything else is inconclusive
		ctx.Inconclusive(fmt.Sprintf("wall-clock watchdog (%ds) fired before the workload completed", limit))
		os.Exit(ctx.Finish())
	}()
	// heap watchdog: code under test that retains memory across calls (a per-call append into a
	// policy table, an unbounded cache) makes the monitor process grow until the kernel kills it
	// and nothing is reported. Past 60% of RAM the run stops instead: violations already witnessed
	// are reported with their replay files, otherwise the run is inconclusive (never a violation).
	go func() {
		lim := heapLimit()
		var ms runtime.MemStats
		for {
			time.Sleep(300 * time.Millisecond)
			runtime.ReadMemStats(&ms)
			if ms.HeapAlloc > lim {
				ctx.Inconclusive(fmt.Sprintf("heap watchdog: the monitor process holds %d MiB of live heap (limit %d MiB) before the workload completed; memory is being retained across sanitiser calls or the workload is too large for this machine", ms.HeapAlloc>>20, lim>>20))
				os.Exit(ctx.Finish())
			}
		}
	}()
	m(ctx)
	os.Exit(ctx.Finish())
}

// heapLimit is 60% of MemTotal (VERIF_HEAP_LIMIT_MB overrides), 24 GiB when unknown.
func heapLimit() uint64 {
	if v, err := strconv.ParseUint(os.Getenv("VERIF_HEAP_LIMIT_MB"), 10, 64); err == nil && v > 0 {
		return v << 20
	}
	if b, err := os.ReadFile("/proc/meminfo"); err == nil {
		for _, l := range strings.Split(string(b), "\n") {
			f := strings.Fields(l)
			if len(f) >= 2 && f[0] == "MemTotal:" {
				if kb, err := strconv.ParseUint(f[1], 10, 64); err == nil && kb > 0 {
					return kb * 1024 / 10 * 6
				}
			}
		}
	}
	return 24 << 30
}

func isFlagSet(name string) bool {
	set := false
	flag.Visit(func(f *flag.Flag) {
		if f.Name == name {
			set = true
		}
	})
	return set
}
